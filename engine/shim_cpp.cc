/* shim_cpp.cc -- in the C++ configuration nsync's platform hooks live in
   namespace nsync; forward them to the runtime's C definitions. */
#include <time.h>
extern "C" {
void nsync_yield_ (void);
void *nsync_per_thread_waiter_ (void (*dest) (void *));
void nsync_set_per_thread_waiter_ (void *v, void (*dest) (void *));
void nsync_panic_ (const char *s);
}
namespace nsync {
void nsync_yield_ (void) { ::nsync_yield_ (); }
void *nsync_per_thread_waiter_ (void (*dest) (void *)) { return ::nsync_per_thread_waiter_ (dest); }
void nsync_set_per_thread_waiter_ (void *v, void (*dest) (void *)) { ::nsync_set_per_thread_waiter_ (v, dest); }
void nsync_panic_ (const char *s) { ::nsync_panic_ (s); }
}
