/* binsem.c -- nsync's semaphore interface (internal/sem.h) implemented by the
   runtime's built-in binary semaphore: P waits until the count is non-zero and
   sets it to 0, V sets it to 1.  This is the weakest object sem.h allows ("may
   be counting or binary") and mirrors platform/posix/src/nsync_semaphore_mutex.c
   with the pthread layer abstracted away.  Not instrumented. */
#include <stdint.h>
#include <time.h>
#include <errno.h>
#include "mc.h"
int mc_opt_binsem = 1;
void mc_binsem_init (int *s);
int mc_binsem_p (int *s, int has_dl, int64_t dl);
void mc_binsem_v (int *s);
typedef struct nsync_semaphore_s_ { void *sem_space[32]; } nsync_semaphore;
void nsync_mu_semaphore_init (nsync_semaphore *s) { mc_binsem_init ((int *)s); }
void nsync_mu_semaphore_p (nsync_semaphore *s) { mc_binsem_p ((int *)s, 0, 0); }
int nsync_mu_semaphore_p_with_deadline (nsync_semaphore *s, struct timespec abs_deadline) {
	/* nsync_time is struct timespec in every configuration built here */
	if (abs_deadline.tv_sec == (time_t)INT64_MAX && abs_deadline.tv_nsec == 999999999) return mc_binsem_p ((int *)s, 0, 0);
	int64_t dl;
	if (abs_deadline.tv_sec > INT64_MAX / MC_NS - 1) dl = MC_NEVER - 1;
	else if (abs_deadline.tv_sec < INT64_MIN / MC_NS + 1) dl = INT64_MIN + 1;
	else dl = abs_deadline.tv_sec * MC_NS + abs_deadline.tv_nsec;
	return mc_binsem_p ((int *)s, 1, dl);
}
void nsync_mu_semaphore_v (nsync_semaphore *s) { mc_binsem_v ((int *)s); }
