/* mc.h -- interface between the exploration runtime (rt.c) and the scenario
   harnesses.  Harness code is compiled with -fsanitize=thread exactly like the
   nsync sources (so that its plain accesses to shared client data are seen by
   the monitors) but linked against rt.c instead of libtsan.  */
#ifndef MC_H_
#define MC_H_
#include <stdint.h>
#include <stddef.h>

#ifdef __cplusplus
extern "C" {
#endif

#define MC_MAXF 6             /* fibers: up to 5 scenario threads + observer */
#define MC_NS 1000000000LL
#define MC_T0 (1000LL*MC_NS)  /* virtual clock at the start of every execution */
#define MC_NEVER INT64_MAX

/* Functions that implement oracles (not client behaviour) are excluded from
   the race monitor and never become scheduling points by accident.  */
#define MC_ORACLE __attribute__((noinline, no_sanitize_thread))

/* ---- scheduling ---- */
void mc_point (void);   /* scheduling point; leaving the fiber here costs a preemption */
void mc_yield (void);   /* scheduling point; leaving the fiber here is free (voluntary) */
void mc_handoff (int fiber); /* like mc_yield, and the named fiber (if enabled) is the default choice of the next decision */
int  mc_self (void);    /* index of the running fiber, -1 during init */

/* Client-level choreography: a flag written with mc_flag_set (release) and
   awaited with mc_await (acquire).  The awaiting fiber is disabled until the
   flag is non-zero.  Stands for a correct synchronisation the *client* does.  */
void mc_flag_set (volatile int *flag, int v);
void mc_await (volatile int *flag);

/* Observer fiber only: block until nothing else can run and no clock tick is
   possible; returns the bit mask of scenario fibers that have not finished.  */
unsigned mc_quiesce (void);
int  mc_fiber_done (int i);
int  mc_fiber_asleep (int i);   /* blocked in a semaphore / futex wait */
int  mc_fiber_parked (int i);   /* parked in a spin loop */

/* Number of times the calling fiber blocked (slept in a futex / semaphore wait,
   or called nsync_yield_) since the last mc_blocks_reset().  */
void mc_blocks_reset (void);
unsigned mc_blocks (void);
unsigned mc_blocks_of (int fiber);
unsigned mc_sleeps_of (int fiber);   /* semaphore / futex sleeps only, same arming */
void *mc_tls_waiter_of (int fiber);  /* the fiber's per-thread waiter record (NULL if it has none yet) */
extern void (*mc_tls_listener) (int fiber, void *w);   /* called when a fiber adopts a per-thread waiter record */

/* Thread exit followed by the start of a fresh thread on the same fiber: runs
   the per-thread-waiter destructor as a pthread key destructor would.  */
void mc_thread_recycle (void);

/* ---- virtual clock ---- */
int64_t mc_now_ns (void);
void mc_declare_instant (int64_t ns);   /* an instant the clock may tick to */

/* ---- memory ---- */
void *mc_malloc (size_t n);
void  mc_free (void *p);
void *mc_memset (void *p, int c, size_t n);
void *mc_memcpy (void *d, const void *s, size_t n);
void  mc_name (const void *p, size_t n, const char *name);  /* for traces */
void  mc_fail_alloc_at (int k);   /* the k-th mc_malloc from now (1-based) returns NULL; 0 = never */
int   mc_alloc_count (void);
int   mc_addr_live (const void *p, size_t n); /* inside a live arena block / mcstate / live stack */

/* ---- verdicts ---- */
void mc_fail (const char *fmt, ...) __attribute__((format(printf,1,2)));
#define mc_assert(c, ...) do { if (!(c)) mc_fail (__VA_ARGS__); } while (0)
void mc_outcome (const char *fmt, ...) __attribute__((format(printf,1,2))); /* appended to this execution's outcome string */

/* nsync reports its own acquisition / release points through the TSan
   annotations it already contains; a harness may listen (C01 cross-check). */
extern void (*mc_rwlock_listener) (void *mu, int acquired, int is_writer);

/* ---- futex fault injection (C12) ---- */
#define MC_FAULT_EINTR 1
#define MC_FAULT_EAGAIN 2
#define MC_FAULT_EARLY_TIMEOUT 4
void mc_fault_mask (int mask);

/* ---- scenario families ---- */
struct mc_family {
	const char *name;
	int  (*setup) (const char *program);  /* parse; return number of scenario threads, <0 = illegal program */
	void (*init) (void);                  /* per execution, before any fiber runs */
	void (*thread) (int i);               /* body of scenario thread i */
	void (*observer) (void);              /* optional observer fiber */
	void (*final) (void);                 /* optional: in scheduler context after a completed execution */
	void (*idle) (void);                  /* optional: in scheduler context whenever no thread can run and the only thing
	                                         left to happen is the clock advancing to the next pending instant: every waker
	                                         has finished, so whoever still sleeps is waiting for time alone (pure check) */
};
extern const struct mc_family *const mc_families[];

/* runtime options visible to harnesses */
extern int mc_opt_binsem;   /* 1 when the built-in binary semaphore is linked */

#ifdef __cplusplus
}
#endif
#endif
