/* rt.c -- exploration runtime for google/nsync.

   The nsync sources and the scenario harnesses are compiled with
   -fsanitize=thread and linked against THIS file instead of libtsan.  The
   compiler's instrumentation is the hook mechanism: every atomic operation
   arrives here with the memory order the source requested, every plain access
   to possibly-shared memory arrives as __tsan_read/write.  Threads are fibers on
   one OS thread; this file owns every source of nondeterminism (who runs next,
   when the virtual clock reaches a deadline, what the futex call answers,
   whether malloc fails) and enumerates all choice sequences within a budget of
   preemptions (P) and environment deviations (E), depth first, by re-execution,
   with visited-state pruning on a hash of the concrete program state.

   See /verif/DESIGN.md sections 2-5.  This translation unit is NOT instrumented. */
#define _GNU_SOURCE
#include <stdio.h>
#include <stdlib.h>
#include <string.h>
#include <stdint.h>
#include <stdarg.h>
#include <errno.h>
#include <time.h>
#include <signal.h>
#include <setjmp.h>
#include <unistd.h>
#include <sys/mman.h>
#include <linux/futex.h>
#include <sys/syscall.h>
#include <ucontext.h>
#include "mc.h"

extern char __start_mcstate[], __stop_mcstate[];

/* ------------------------------------------------------------------ */
/* configuration and global exploration state                         */

#define MAXF MC_MAXF
#define STK (64*1024)
#define STK_USABLE (24*1024)        /* deepest a fiber may go; zeroed before every execution */
#define ARENA_BASE ((char *)0x100000000UL)
#define ARENA_SIZE (1<<20)
#define STACK_BASE(i) ((char *)(0x200000000UL + (uintptr_t)(i)*0x1000000UL))
#define MAXD 40000                  /* hard limit on scheduling decisions per execution */
#define REDZONE 64

enum { ST_NONE, ST_RUN, ST_YIELDED, ST_PARKED, ST_FUTEX, ST_SEMP, ST_AWAIT, ST_SLEEP, ST_QUIESCE, ST_DONE };
static const char *const st_name[] = { "none", "run", "yielded", "parked", "futex", "semP", "await", "sleep", "quiesce", "done" };

#define DM 64
struct dmap { int n, overflow, active, depth; uintptr_t a[DM]; uint64_t old[DM]; };

struct fiber {
	void *sp;
	char *stack;
	int st;
	int *futex_addr;           /* ST_FUTEX / ST_SEMP: address slept on */
	int64_t dl;                /* absolute deadline in ns, MC_NEVER if none (also ST_SLEEP) */
	int woken;                 /* futex: a FUTEX_WAKE picked this sleeper */
	int fault;                 /* futex: errno injected by a fault event, 0 if none */
	volatile int *await;
	void *tls_waiter;
	void (*dest) (void *);
	unsigned blocks, sleeps; int blocks_armed;
	int observer;
	uint32_t vc[MAXF];
	struct dmap dm;
	void *cs[48]; int ncs;     /* shadow call stack (call-site PCs) */
};
static char *stack_low[MC_MAXF];   /* lowest address of each fiber stack that may hold non-zero bytes */
static struct fiber F[MAXF];
static int nfib, nscen;            /* fibers in this scenario (incl. observer), scenario threads */
static int cur = -1;               /* running fiber, -1 = scheduler / init */
static void *main_sp;
static const struct mc_family *fam;
static const char *program = "";
static const char *config_name = "?";

static int boundP = 2, boundE = 0;
static int opt_nohash, opt_hb, opt_semhb = 1, opt_verbose, opt_horizon = 6000;
static int opt_strict;             /* every departure from the default choice costs a preemption, even where switching is free */
static int opt_maxviol = 6;
static double opt_deadline_s = 0;
static long opt_maxstates = 24L<<20;
static long opt_maxexecs = 0;
int mc_opt_binsem __attribute__((weak)) = 0;

static int64_t now_ns __attribute__((aligned(8)));
static int fault_mask;
#define MAXINST 16
static int64_t instants[MAXINST]; static int ninst;
static int hint_next = -1;        /* mc_handoff: fiber to be preferred at the next decision */

/* per-execution decision record */
static int choice[MAXD], nopt[MAXD];
/* states reached by the decisions of the current execution beyond the replayed prefix, and who moved:
   used to tell a non-progress cycle (the execution came back to a state of its OWN path) from an
   ordinary revisit of a state reached by an earlier execution */
static uint64_t path_h0[MAXD], path_h1[MAXD]; static signed char path_who[MAXD];
static unsigned char pt_nthr[MAXD], pt_pre[MAXD], pt_tick[MAXD], pt_tickcost[MAXD];
static int depth, prefix_len;
static int usedP, usedE;

/* statistics */
static unsigned long n_execs, n_steps, n_steps_new, n_states, n_pruned, n_horizon, n_complete_execs;
static int max_depth;
static int capped;

/* violation of the current execution */
static char viol[512];
static void *viol_pc[3];
static int have_viol;
static sigjmp_buf crash_jmp;
static volatile int in_fiber_run;

/* outcome string of the current execution */
static char outcome[2048]; static int outcome_len;

/* ------------------------------------------------------------------ */
/* small utilities                                                    */

static void die (const char *fmt, ...) {
	va_list ap; va_start (ap, fmt);
	fprintf (stderr, "nsmc: fatal: "); vfprintf (stderr, fmt, ap); fprintf (stderr, "\n");
	va_end (ap);
	exit (3);
}

static double wall (void) {
	struct timespec t; clock_gettime (CLOCK_MONOTONIC, &t);
	return t.tv_sec + t.tv_nsec / 1e9;
}

static inline int in_arena (const void *p) { return (const char *)p >= ARENA_BASE && (const char *)p < ARENA_BASE + ARENA_SIZE; }
static inline int stack_of (const void *p) {
	uintptr_t a = (uintptr_t)p;
	if (a < 0x200000000UL || a >= 0x200000000UL + MAXF*0x1000000UL) return -1;
	int i = (int)((a - 0x200000000UL) / 0x1000000UL);
	if ((const char *)p < F[i].stack + STK) return i;
	return -1;
}
static inline int in_mcstate (const void *p) { return (const char *)p >= __start_mcstate && (const char *)p < __stop_mcstate; }

/* names for traces */
struct nm { const char *p; size_t n; char name[24]; };
static struct nm names[64]; static int nnames;
void mc_name (const void *p, size_t n, const char *name) {
	if (nnames < 64) { names[nnames].p = p; names[nnames].n = n; snprintf (names[nnames].name, sizeof names[nnames].name, "%s", name); nnames++; }
}

/* ------------------------------------------------------------------ */
/* arena allocator: bump, never reuses, poisons on free               */

struct blk { char *p; size_t n; int live; void *free_pc; int free_by; };
#define MAXBLK 1024
static struct blk blks[MAXBLK]; static int nblk;
static size_t arena_off, arena_hi;
static int alloc_count, fail_alloc_at;

static const char *addr_name (const void *p, char *buf, size_t bn) {
	const char *c = p;
	for (int i = 0; i < nnames; i++) if (c >= names[i].p && c < names[i].p + names[i].n) {
		if (c == names[i].p) snprintf (buf, bn, "%s", names[i].name); else snprintf (buf, bn, "%s+%ld", names[i].name, (long)(c - names[i].p));
		return buf;
	}
	if (in_arena (p)) {
		for (int i = 0; i < nblk; i++) if (c >= blks[i].p && c < blks[i].p + blks[i].n) { snprintf (buf, bn, "blk%d(%zu)+%ld", i, blks[i].n, (long)(c - blks[i].p)); return buf; }
		snprintf (buf, bn, "arena+%ld", (long)(c - ARENA_BASE)); return buf;
	}
	int s = stack_of (p);
	if (s >= 0) { snprintf (buf, bn, "T%d.stack-%ld", s, (long)(F[s].stack + STK - c)); return buf; }
	if (in_mcstate (p)) { snprintf (buf, bn, "static+%ld", (long)(c - __start_mcstate)); return buf; }
	snprintf (buf, bn, "%p", p); return buf;
}

static void violation (void *pc, const char *fmt, ...);
static void dm_note (uintptr_t addr, size_t n);
static void sched_point (int voluntary);

void *mc_malloc (size_t n) {
	void *pc = __builtin_return_address (0);
	alloc_count++;
	if (fail_alloc_at > 0 && alloc_count == fail_alloc_at) {
		if (opt_verbose) printf ("  T%d malloc(%zu) -> NULL (injected)\n", cur, n);
		return NULL;
	}
	arena_off = (arena_off + 63) & ~(size_t)63;
	if (nblk >= MAXBLK || arena_off + n + REDZONE > ARENA_SIZE) { violation (pc, "harness: arena exhausted"); return NULL; }
	char *p = ARENA_BASE + arena_off;
	arena_off += n + REDZONE;
	if (arena_off > arena_hi) arena_hi = arena_off;
	blks[nblk].p = p; blks[nblk].n = n; blks[nblk].live = 1; blks[nblk].free_pc = 0; nblk++;
	if (opt_verbose) printf ("  T%d malloc(%zu) -> blk%d\n", cur, n, nblk-1);
	return p;
}
void mc_fail_alloc_at (int k) { fail_alloc_at = k > 0 ? alloc_count + k : 0; }
int mc_alloc_count (void) { return alloc_count; }

void mc_free (void *p) {
	void *pc = __builtin_return_address (0);
	if (p == NULL) return;
	for (int i = 0; i < nblk; i++) if (blks[i].p == p) {
		if (!blks[i].live) { violation (pc, "double free of blk%d", i); return; }
		dm_note ((uintptr_t)p, blks[i].n);
		memset (p, 0xdd, blks[i].n);
		blks[i].live = 0; blks[i].free_pc = pc; blks[i].free_by = cur;
		if (opt_verbose) printf ("  T%d free(blk%d)\n", cur, i);
		return;
	}
	violation (pc, "free of a pointer that is not the start of an arena block");
}

/* Liveness of [a, a+n): 0 = fine, otherwise a violation has been recorded. */
static int check_live (const void *a, size_t n, const char *what, void *pc) {
	const char *c = a; char nb[64];
	if (cur < 0) return 0;
	if (in_arena (a)) {
		for (int i = 0; i < nblk; i++) if (c + n > blks[i].p && c < blks[i].p + blks[i].n) {
			if (!blks[i].live) {
				viol_pc[1] = blks[i].free_pc;
				violation (pc, "%s of freed memory: blk%d(%zu)+%ld freed by T%d", what, i, blks[i].n, (long)(c - blks[i].p), blks[i].free_by);
				return 1;
			}
			if (c >= blks[i].p && c + n <= blks[i].p + blks[i].n) return 0;
			violation (pc, "%s overruns blk%d(%zu): offset %ld size %zu", what, i, blks[i].n, (long)(c - blks[i].p), n);
			return 1;
		}
		violation (pc, "%s outside any allocated block: %s", what, addr_name (a, nb, sizeof nb));
		return 1;
	}
	int s = stack_of (a);
	if (s >= 0 && s != cur) {
		if (F[s].st == ST_DONE || F[s].st == ST_NONE || c < (char *)F[s].sp) {
			violation (pc, "%s of dead stack memory of T%d (%s; that fiber %s)", what, s, addr_name (a, nb, sizeof nb),
				   F[s].st == ST_DONE ? "has exited" : "has returned from the frame");
			return 1;
		}
	}
	return 0;
}
int mc_addr_live (const void *p, size_t n) {
	const char *c = p;
	if (in_arena (p)) { for (int i = 0; i < nblk; i++) if (c >= blks[i].p && c + n <= blks[i].p + blks[i].n) return blks[i].live; return 0; }
	int s = stack_of (p);
	if (s >= 0) return s == cur || (F[s].st != ST_DONE && c >= (char *)F[s].sp);
	return 1;
}

/* ------------------------------------------------------------------ */
/* delta maps: the content-based spin-park rule (DESIGN 3.2)          */

static void dm_note (uintptr_t addr, size_t n) {  /* call BEFORE the write */
	for (uintptr_t w = addr & ~7UL; w < addr + n; w += 8)
		for (int t = 0; t < nfib; t++) {
			struct dmap *m = &F[t].dm; int k;
			if (!m->active || m->overflow) continue;
			/* A write by ANOTHER fiber while fiber t is in the middle of an iteration (preempted between two
			   yields): t may have read, or may yet read, the new value, so "memory at the end of the iteration
			   equals memory at its start" no longer implies that running the iteration again does the same
			   thing (seen with a stale semaphore post: the poster raises the count during the iteration, the
			   iteration consumes it, the next one would find zero and time out).  Such an iteration never parks.  */
			if (t != cur && F[t].st == ST_RUN) { m->overflow = 1; continue; }
			for (k = 0; k < m->n; k++) if (m->a[k] == w) break;
			if (k < m->n) continue;
			if (m->n < DM) { m->a[m->n] = w; m->old[m->n] = *(volatile uint64_t *)w; m->n++; }
			else m->overflow = 1;
		}
}
static int dm_changed (int t) {
	struct dmap *m = &F[t].dm;
	if (!m->active || m->overflow) return 1;
	for (int k = 0; k < m->n; k++) if (*(volatile uint64_t *)m->a[k] != m->old[k]) return 1;
	return 0;
}
static inline int own_stack (const void *a) { return cur >= 0 && (const char *)a >= F[cur].stack && (const char *)a < F[cur].stack + STK; }

/* ------------------------------------------------------------------ */
/* happens-before monitor (DESIGN 4); active with --hb                */

struct shadow {
	uintptr_t addr;
	uint32_t wclk; int8_t wtid; void *wpc;
	uint32_t rclk[MAXF]; void *rpc[MAXF];
	uint32_t awclk[MAXF], arclk[MAXF];
};
#define SHBITS 16
static struct shadow *shtab; static uint32_t shused[1<<SHBITS]; static int nshused;
struct relclk { uintptr_t addr; uint32_t vc[MAXF]; };
#define RCN 512
static struct relclk rc[RCN]; static int nrc;

static struct shadow *sh_get (uintptr_t a) {
	uint32_t h = (uint32_t)((a * 0x9E3779B97F4A7C15ULL) >> (64 - SHBITS));
	for (;;) {
		struct shadow *s = &shtab[h];
		if (s->addr == a) return s;
		if (s->addr == 0) {
			if (nshused >= (1<<SHBITS) * 3 / 4) die ("shadow table full");
			s->addr = a; s->wtid = -1; shused[nshused++] = h; return s;
		}
		h = (h + 1) & ((1<<SHBITS) - 1);
	}
}
static void sh_reset (void) {
	for (int i = 0; i < nshused; i++) memset (&shtab[shused[i]], 0, sizeof (struct shadow));
	nshused = 0; nrc = 0;
}
static struct relclk *rc_get (uintptr_t a, int create) {
	for (int i = 0; i < nrc; i++) if (rc[i].addr == a) return &rc[i];
	if (!create) return NULL;
	if (nrc >= RCN) die ("release-clock table full");
	memset (&rc[nrc], 0, sizeof rc[nrc]); rc[nrc].addr = a; return &rc[nrc++];
}
/* text range of the harness objects (for --hb-scope=cut: races between two accesses of the harness' own client
   data are not nsync's business and are not reported; the race pass of the property checks uses it, C03 does not) */
extern char __start_t_harness[] __attribute__((weak)), __stop_t_harness[] __attribute__((weak));
static inline int pc_in_harness (void *pc) { return __start_t_harness && (char *)pc >= __start_t_harness && (char *)pc < __stop_t_harness; }
static int opt_hb_cut;
static int race (void *pc, void *opc, const char *kind, int other, const void *a) {
	char nb[64];
	if (opt_hb_cut && pc_in_harness (pc) && (opc == NULL || pc_in_harness (opc))) return 0;
	viol_pc[1] = opc;
	violation (pc, "data race (declared memory orders give no happens-before): %s by T%d vs T%d on %s", kind, cur, other, addr_name (a, nb, sizeof nb));
	return 1;
}
/* kind: 0 plain read, 1 plain write, 2 atomic read, 3 atomic write */
static void hb_access (const void *p, size_t n, int kind, void *pc) {
	if (!opt_hb || cur < 0 || have_viol) return;
	struct fiber *f = &F[cur];
	for (size_t i = 0; i < n; i++) {
		uintptr_t a = (uintptr_t)p + i;
		struct shadow *s = sh_get (a);
		/* any access conflicts with an unordered plain write */
		if (s->wtid >= 0 && s->wtid != cur && s->wclk > f->vc[s->wtid]) {
			if (race (pc, s->wpc, kind == 0 ? "read after write" : kind == 1 ? "write after write" : kind == 2 ? "atomic load after plain write" : "atomic store after plain write", s->wtid, (void *)a)) return;
		}
		if (kind == 1 || kind == 3)
			for (int r = 0; r < nfib; r++) if (r != cur && s->rclk[r] > f->vc[r]) { if (race (pc, s->rpc[r], kind == 1 ? "write after read" : "atomic store after plain read", r, (void *)a)) return; }
		if (kind == 0 || kind == 1)
			for (int r = 0; r < nfib; r++) if (r != cur && s->awclk[r] > f->vc[r]) { if (race (pc, NULL, kind == 0 ? "plain read after atomic store" : "plain write after atomic store", r, (void *)a)) return; }
		if (kind == 1)
			for (int r = 0; r < nfib; r++) if (r != cur && s->arclk[r] > f->vc[r]) { if (race (pc, NULL, "plain write after atomic load", r, (void *)a)) return; }
		switch (kind) {
		case 0: s->rclk[cur] = f->vc[cur]; s->rpc[cur] = pc; break;
		case 1: s->wtid = cur; s->wclk = f->vc[cur]; s->wpc = pc; break;
		case 2: s->arclk[cur] = f->vc[cur]; break;
		case 3: s->awclk[cur] = f->vc[cur]; break;
		}
	}
}
static void vc_join (uint32_t *d, const uint32_t *s) { for (int i = 0; i < MAXF; i++) if (s[i] > d[i]) d[i] = s[i]; }
static void hb_acquire (const void *a) {
	if (!opt_hb || cur < 0) return;
	struct relclk *r = rc_get ((uintptr_t)a, 0);
	if (r) vc_join (F[cur].vc, r->vc);
}
/* mode: 0 = release store (replaces), 1 = release RMW (joins), 2 = relaxed store (ends sequences) */
static void hb_release (const void *a, int mode) {
	if (!opt_hb || cur < 0) return;
	struct relclk *r = rc_get ((uintptr_t)a, 1);
	if (mode == 2) { memset (r->vc, 0, sizeof r->vc); return; }
	if (mode == 0) memcpy (r->vc, F[cur].vc, sizeof r->vc); else vc_join (r->vc, F[cur].vc);
	F[cur].vc[cur]++;
}

/* text range of the futex semaphore object (for --sem-hb=off) */
extern char __start_t_sem[] __attribute__((weak)), __stop_t_sem[] __attribute__((weak));
static inline int pc_in_sem (void *pc) { return __start_t_sem && (char *)pc >= __start_t_sem && (char *)pc < __stop_t_sem; }

/* ------------------------------------------------------------------ */
/* context switch                                                     */

void mc_switch_ (void **save_sp, void *new_sp);
__asm__ (
"	.text\n"
"	.globl mc_switch_\n"
"	.type mc_switch_,@function\n"
"mc_switch_:\n"
"	pushq %rbp\n	pushq %rbx\n	pushq %r12\n	pushq %r13\n	pushq %r14\n	pushq %r15\n"
"	movq %rsp, (%rdi)\n"
"	movq %rsi, %rsp\n"
"	popq %r15\n	popq %r14\n	popq %r13\n	popq %r12\n	popq %rbx\n	popq %rbp\n"
"	ret\n"
"	.size mc_switch_, .-mc_switch_\n");

static void fiber_exit_cleanup (void);
/* joining finished threads is a happens-before edge, as pthread_join would be */
static void observer_wakeup (int me) { for (int i = 0; i < nscen; i++) if (F[i].st == ST_DONE) vc_join (F[me].vc, F[i].vc); }
static void fiber_main (void) {
	int me = cur;
	if (F[me].observer) { F[me].st = ST_RUN; observer_wakeup (me); fam->observer (); } else fam->thread (me);
	fiber_exit_cleanup ();
	F[me].st = ST_DONE;
	mc_switch_ (&F[me].sp, main_sp);
	die ("resumed a finished fiber");
}
static void fiber_create (int i, int observer) {
	struct fiber *f = &F[i];
	char *stack = f->stack;
	memset (f, 0, sizeof *f);
	f->stack = stack;
	if (stack_low[i] == NULL) stack_low[i] = stack + STK - STK_USABLE;
	memset (stack_low[i], 0, stack + STK - stack_low[i]);
	stack_low[i] = stack + STK - 256;
	uintptr_t *top = (uintptr_t *)(stack + STK - 64);
	/* layout expected by mc_switch_: r15 r14 r13 r12 rbx rbp ret */
	top -= 1; *top = 0;                       /* fake return address slot: keeps (rsp+8)%16==0 at entry */
	top -= 1; *top = (uintptr_t)fiber_main;
	top -= 6; memset (top, 0, 6 * sizeof *top);
	f->sp = top;
	f->st = observer ? ST_QUIESCE : ST_RUN;
	f->observer = observer;
	f->dl = MC_NEVER;
	f->vc[i] = 1;
}

/* Called by a fiber: hand control to the scheduler; returns when scheduled again. */
static void sched_point (int voluntary) {
	if (cur < 0) return;
	int me = cur;
	if (have_viol) { mc_switch_ (&F[me].sp, main_sp); }
	if (F[me].st == ST_RUN && voluntary) F[me].st = ST_YIELDED;
	if ((char *)__builtin_frame_address (0) < F[me].stack + STK - STK_USABLE + 512) { violation (NULL, "harness: fiber stack too deep"); }
	mc_switch_ (&F[me].sp, main_sp);
	if (F[me].st == ST_YIELDED) F[me].st = ST_RUN;
}
void mc_point (void) { sched_point (0); }
void mc_yield (void) { sched_point (1); }
/* Voluntary switch with a preference: the named fiber becomes the default (first) option of the next
   scheduling decision if it is enabled.  Lets a harness script an adversarial strategy as the
   zero-deviation schedule; all other options remain alternatives for the explorer. */
void mc_handoff (int fiber) { if (cur >= 0) { hint_next = fiber; sched_point (1); } }
int mc_self (void) { return cur; }
int64_t mc_now_ns (void) { return now_ns; }
void mc_declare_instant (int64_t ns) { for (int i = 0; i < ninst; i++) if (instants[i] == ns) return; if (ninst < MAXINST) instants[ninst++] = ns; }
void mc_fault_mask (int m) { fault_mask = m; }
/* the counter only runs between mc_blocks_reset() and mc_blocks(), so that it is not a piece of
   unbounded history in the hashed state */
void mc_blocks_reset (void) { if (cur >= 0) { F[cur].blocks = 0; F[cur].sleeps = 0; F[cur].blocks_armed = 1; } }
unsigned mc_blocks (void) { if (cur < 0) return 0; unsigned b = F[cur].blocks; F[cur].blocks = 0; F[cur].sleeps = 0; F[cur].blocks_armed = 0; return b; }
unsigned mc_sleeps_of (int i) { return F[i].sleeps; }
void *mc_tls_waiter_of (int i) { return F[i].tls_waiter; }
unsigned mc_blocks_of (int i) { return F[i].blocks; }
int mc_fiber_done (int i) { return F[i].st == ST_DONE; }
int mc_fiber_asleep (int i) { return F[i].st == ST_FUTEX || F[i].st == ST_SEMP; }
int mc_fiber_parked (int i) { return F[i].st == ST_PARKED; }

void mc_flag_set (volatile int *flag, int v) {
	void *pc = __builtin_return_address (0);
	sched_point (0);
	hb_release ((const void *)flag, 0);
	dm_note ((uintptr_t)flag, 4);
	*flag = v;
	if (opt_verbose) { char nb[64]; printf ("  T%d flag_set %s = %d\n", cur, addr_name ((void *)flag, nb, sizeof nb), v); }
	(void)pc;
}
void mc_await (volatile int *flag) {
	if (cur < 0) return;
	if (*flag == 0) {
		F[cur].st = ST_AWAIT; F[cur].await = flag;
		sched_point (0);
		F[cur].st = ST_RUN;
	}
	hb_acquire ((const void *)flag);
}
unsigned mc_quiesce (void) {
	int me = cur; unsigned m = 0;
	if (!F[me].observer) { violation (NULL, "harness: mc_quiesce outside the observer"); return 0; }
	F[me].st = ST_QUIESCE;
	mc_switch_ (&F[me].sp, main_sp);
	F[me].st = ST_RUN;
	for (int i = 0; i < nscen; i++) if (F[i].st != ST_DONE) m |= 1u << i;
	observer_wakeup (me);
	return m;
}

static void fiber_exit_cleanup (void) {
	struct fiber *f = &F[cur];
	if (f->tls_waiter != NULL && f->dest != NULL) {
		void *w = f->tls_waiter; void (*d) (void *) = f->dest;
		f->tls_waiter = NULL;
		d (w);
	}
}
void mc_thread_recycle (void) { sched_point (0); fiber_exit_cleanup (); F[cur].dest = NULL; }

/* ------------------------------------------------------------------ */
/* verdicts                                                           */

static void violation (void *pc, const char *fmt, ...) {
	if (have_viol) return;
	va_list ap; va_start (ap, fmt);
	int n = snprintf (viol, sizeof viol, "T%d: ", cur);
	vsnprintf (viol + n, sizeof viol - n, fmt, ap);
	va_end (ap);
	viol_pc[0] = pc;
	if (cur >= 0 && F[cur].ncs > 0) viol_pc[2] = F[cur].cs[F[cur].ncs - 1 < 47 ? F[cur].ncs - 1 : 47];
	have_viol = 1;
}
void mc_fail (const char *fmt, ...) {
	char b[400]; va_list ap; va_start (ap, fmt); vsnprintf (b, sizeof b, fmt, ap); va_end (ap);
	violation (__builtin_return_address (0), "%s", b);
	if (cur >= 0) mc_switch_ (&F[cur].sp, main_sp);
}
void mc_outcome (const char *fmt, ...) {
	va_list ap; va_start (ap, fmt);
	if (outcome_len < (int)sizeof outcome - 1) outcome_len += vsnprintf (outcome + outcome_len, sizeof outcome - outcome_len, fmt, ap);
	if (outcome_len > (int)sizeof outcome - 1) outcome_len = sizeof outcome - 1;
	va_end (ap);
}
void nsync_panic_ (const char *s) {
	char b[200]; snprintf (b, sizeof b, "%s", s); size_t l = strlen (b); if (l && b[l-1] == '\n') b[l-1] = 0;
	violation (__builtin_return_address (0), "nsync_panic: %s", b);
	if (cur >= 0) mc_switch_ (&F[cur].sp, main_sp);
	die ("nsync_panic_ outside a fiber: %s", s);
}
static void on_crash (int sig, siginfo_t *si, void *uc_) {
	ucontext_t *uc = uc_;
	if (!in_fiber_run) { fprintf (stderr, "nsmc: runtime crashed (signal %d at %p, addr %p)\n", sig, (void *)uc->uc_mcontext.gregs[REG_RIP], si->si_addr); _exit (4); }
	violation ((void *)uc->uc_mcontext.gregs[REG_RIP], "crash: signal %d accessing %p (nsync ASSERT or wild pointer)", sig, si->si_addr);
	siglongjmp (crash_jmp, 1);
}

/* ------------------------------------------------------------------ */
/* TSan ABI                                                           */

void __tsan_init (void) {}
void __tsan_func_entry (void *pc) { if (cur >= 0) { if (F[cur].ncs < 48) F[cur].cs[F[cur].ncs] = pc; F[cur].ncs++; } }
void __tsan_func_exit (void) {
	if (cur >= 0 && F[cur].ncs > 0) {
		F[cur].ncs--;
		/* the function containing the spin loop returned: the spin episode is over, stop tracking */
		if (F[cur].dm.active && F[cur].ncs < F[cur].dm.depth) { F[cur].dm.active = 0; F[cur].dm.n = 0; F[cur].dm.overflow = 0; }
	}
}

static inline void plain_read (void *a, size_t n, void *pc) {
	if (cur < 0) return;
	if (check_live (a, n, "read", pc)) return;
	hb_access (a, n, 0, pc);
}
static inline void plain_write (void *a, size_t n, void *pc) {
	if (cur < 0) return;
	if (check_live (a, n, "write", pc)) return;
	hb_access (a, n, 1, pc);
	if (!own_stack (a)) dm_note ((uintptr_t)a, n);
}
#define RD(n) void __tsan_read##n (void *a) { plain_read (a, n, __builtin_return_address (0)); } \
	void __tsan_unaligned_read##n (void *a) { plain_read (a, n, __builtin_return_address (0)); }
#define WR(n) void __tsan_write##n (void *a) { plain_write (a, n, __builtin_return_address (0)); } \
	void __tsan_unaligned_write##n (void *a) { plain_write (a, n, __builtin_return_address (0)); }
RD(1) RD(2) RD(4) RD(8) RD(16) WR(1) WR(2) WR(4) WR(8) WR(16)
void __tsan_read_range (void *a, long n) { plain_read (a, n, __builtin_return_address (0)); }
void __tsan_write_range (void *a, long n) { plain_write (a, n, __builtin_return_address (0)); }
void __tsan_vptr_update (void **a, void *v) { (void)a; (void)v; }
void __tsan_vptr_read (void **a) { (void)a; }

void *mc_memset (void *p, int c, size_t n) {
	void *pc = __builtin_return_address (0);
	if (cur >= 0) { if (check_live (p, n, "memset", pc)) return p; hb_access (p, n, 1, pc); if (!own_stack (p)) dm_note ((uintptr_t)p, n); }
	return memset (p, c, n);
}
void *mc_memcpy (void *d, const void *s, size_t n) {
	void *pc = __builtin_return_address (0);
	if (cur >= 0) {
		if (check_live (s, n, "memcpy read", pc) || check_live (d, n, "memcpy write", pc)) return d;
		hb_access (s, n, 0, pc); hb_access (d, n, 1, pc);
		if (!own_stack (d)) dm_note ((uintptr_t)d, n);
	}
	return memmove (d, s, n);
}

void *mc_memmove (void *d, const void *s, size_t n) { return mc_memcpy (d, s, n); }

void AnnotateIgnoreWritesBegin (const char *f, int l) { (void)f; (void)l; }
void AnnotateIgnoreWritesEnd (const char *f, int l) { (void)f; (void)l; }
void AnnotateIgnoreReadsBegin (const char *f, int l) { (void)f; (void)l; }
void AnnotateIgnoreReadsEnd (const char *f, int l) { (void)f; (void)l; }
void AnnotateRWLockCreate (const char *f, int l, void *m) { (void)f; (void)l; (void)m; }
/* nsync tells us itself where it considers a mutex acquired / released; the
   harness may install a listener (C01 cross-check).  */
void (*mc_rwlock_listener) (void *mu, int acquired, int is_writer);
void AnnotateRWLockAcquired (const char *f, int l, void *m, long w) { (void)f; (void)l; if (mc_rwlock_listener && cur >= 0) mc_rwlock_listener (m, 1, (int)w); }
void AnnotateRWLockReleased (const char *f, int l, void *m, long w) { (void)f; (void)l; if (mc_rwlock_listener && cur >= 0) mc_rwlock_listener (m, 0, (int)w); }

enum { MO_RELAXED = 0, MO_CONSUME = 1, MO_ACQUIRE = 2, MO_RELEASE = 3, MO_ACQ_REL = 4, MO_SEQ_CST = 5 };
static const char *const mo_name[] = { "rlx", "cons", "acq", "rel", "acqrel", "sc" };

/* coverage: distinct PCs of synchronisation operations executed */
#define SITEN 4096
static void *sites[SITEN]; static int nsites;
static inline void site (void *pc) {
	uint32_t h = (uint32_t)(((uintptr_t)pc * 0x9E3779B97F4A7C15ULL) >> 52);
	for (;;) { if (sites[h] == pc) return; if (!sites[h]) { sites[h] = pc; nsites++; return; } h = (h + 1) & (SITEN - 1); }
}

static inline int eff_mo (int mo, void *pc) { return (!opt_semhb && pc_in_sem (pc)) ? MO_RELAXED : mo; }

uint32_t __tsan_atomic32_load (const volatile uint32_t *a, int mo) {
	void *pc = __builtin_return_address (0);
	if (cur < 0) return *a;
	sched_point (0);
	site (pc);
	if (check_live ((void *)a, 4, "atomic load", pc)) return 0;
	mo = eff_mo (mo, pc);
	hb_access ((void *)a, 4, 2, pc);
	if (mo == MO_ACQUIRE || mo == MO_SEQ_CST || mo == MO_CONSUME || mo == MO_ACQ_REL) hb_acquire ((void *)a);
	uint32_t v = *a;
	if (opt_verbose) { char nb[64]; printf ("  T%d load.%s %s -> 0x%x\n", cur, mo_name[mo], addr_name ((void *)a, nb, sizeof nb), v); }
	return v;
}
void __tsan_atomic32_store (volatile uint32_t *a, uint32_t v, int mo) {
	void *pc = __builtin_return_address (0);
	if (cur < 0) { *a = v; return; }
	sched_point (0);
	site (pc);
	if (check_live ((void *)a, 4, "atomic store", pc)) return;
	mo = eff_mo (mo, pc);
	hb_access ((void *)a, 4, 3, pc);
	hb_release ((void *)a, (mo == MO_RELEASE || mo == MO_SEQ_CST || mo == MO_ACQ_REL) ? 0 : 2);
	if (opt_verbose) { char nb[64]; printf ("  T%d store.%s %s: 0x%x -> 0x%x\n", cur, mo_name[mo], addr_name ((void *)a, nb, sizeof nb), *a, v); }
	dm_note ((uintptr_t)a, 4);
	*a = v;
}
int __tsan_atomic32_compare_exchange_strong (volatile uint32_t *a, uint32_t *e, uint32_t d, int mo, int fmo) {
	void *pc = __builtin_return_address (0);
	if (cur < 0) { if (*a == *e) { *a = d; return 1; } *e = *a; return 0; }
	sched_point (0);
	site (pc);
	if (check_live ((void *)a, 4, "atomic compare-exchange", pc)) return 0;
	mo = eff_mo (mo, pc); fmo = eff_mo (fmo, pc);
	if (*a == *e) {
		hb_access ((void *)a, 4, 3, pc);
		if (mo == MO_ACQUIRE || mo == MO_ACQ_REL || mo == MO_SEQ_CST || mo == MO_CONSUME) hb_acquire ((void *)a);
		if (mo == MO_RELEASE || mo == MO_ACQ_REL || mo == MO_SEQ_CST) hb_release ((void *)a, 1);
		if (opt_verbose) { char nb[64]; printf ("  T%d cas.%s %s: 0x%x -> 0x%x\n", cur, mo_name[mo], addr_name ((void *)a, nb, sizeof nb), *a, d); }
		dm_note ((uintptr_t)a, 4);
		*a = d;
		return 1;
	}
	hb_access ((void *)a, 4, 2, pc);
	if (fmo == MO_ACQUIRE || fmo == MO_SEQ_CST || fmo == MO_CONSUME) hb_acquire ((void *)a);
	if (opt_verbose) { char nb[64]; printf ("  T%d cas.%s %s FAILED: is 0x%x expected 0x%x\n", cur, mo_name[mo], addr_name ((void *)a, nb, sizeof nb), *a, *e); }
	*e = *a;
	return 0;
}
int __tsan_atomic32_compare_exchange_weak (volatile uint32_t *a, uint32_t *e, uint32_t d, int mo, int fmo) {
	return __tsan_atomic32_compare_exchange_strong (a, e, d, mo, fmo);
}
uint32_t __tsan_atomic32_compare_exchange_val (volatile uint32_t *a, uint32_t e, uint32_t d, int mo, int fmo) {
	__tsan_atomic32_compare_exchange_strong (a, &e, d, mo, fmo); return e;
}
void __tsan_atomic_thread_fence (int mo) { (void)mo; if (cur >= 0 && opt_hb) violation (__builtin_return_address (0), "harness: fences are not modelled by the happens-before monitor"); }
void __tsan_atomic_signal_fence (int mo) { (void)mo; }

/* ------------------------------------------------------------------ */
/* platform layer supplied to nsync                                   */

void nsync_yield_ (void) {
	int me = cur;
	if (me < 0) return;
	F[me].blocks += F[me].blocks_armed;
	if (!dm_changed (me)) F[me].st = ST_PARKED; else F[me].st = ST_YIELDED;
	if (opt_verbose) printf ("  T%d yield (%s)\n", me, F[me].st == ST_PARKED ? "parks: iteration changed nothing" : "stays runnable");
	mc_switch_ (&F[me].sp, main_sp);
	F[me].st = ST_RUN;
	/* mark: a new iteration begins.  Tracking starts at the first yield of a spin episode (that
	   yield never parks) and stops when the function containing the loop returns. */
	F[me].dm.n = 0; F[me].dm.overflow = 0; F[me].dm.active = 1; F[me].dm.depth = F[me].ncs - 1;
}
void *nsync_per_thread_waiter_ (void (*dest) (void *)) { (void)dest; return cur >= 0 ? F[cur].tls_waiter : NULL; }
void (*mc_tls_listener) (int fiber, void *w);
void nsync_set_per_thread_waiter_ (void *v, void (*dest) (void *)) { if (cur >= 0) { F[cur].tls_waiter = v; F[cur].dest = dest; if (mc_tls_listener) mc_tls_listener (cur, v); } }

/* A spin iteration that read the clock depends on it: the clock word joins the reader's delta map
   (a tick then un-parks it).  Iterations that never look at the clock are not disturbed by ticks. */
static void dm_depends_on_clock (void) {
	if (cur < 0) return;
	struct dmap *m = &F[cur].dm; int k;
	if (!m->active || m->overflow) return;
	for (k = 0; k < m->n; k++) if (m->a[k] == (uintptr_t)&now_ns) return;
	if (m->n < DM) { m->a[m->n] = (uintptr_t)&now_ns; m->old[m->n] = (uint64_t)now_ns; m->n++; } else m->overflow = 1;
}
int mc_clock_gettime (int c, struct timespec *ts) { (void)c; dm_depends_on_clock (); ts->tv_sec = now_ns / MC_NS; ts->tv_nsec = now_ns % MC_NS; return 0; }
/* std::chrono::system_clock::now() for the C++ build */
int64_t _ZNSt6chrono3_V212system_clock3nowEv (void) { dm_depends_on_clock (); return now_ns; }
int mc_nanosleep (const struct timespec *req, struct timespec *rem) {
	if (cur < 0) return 0;
	int me = cur;
	F[me].dm.overflow = 1;
	F[me].dl = now_ns + req->tv_sec * MC_NS + req->tv_nsec; F[me].st = ST_SLEEP; F[me].blocks += F[me].blocks_armed;
	mc_switch_ (&F[me].sp, main_sp);
	F[me].st = ST_RUN; F[me].dl = MC_NEVER;
	if (rem) { rem->tv_sec = 0; rem->tv_nsec = 0; }
	return 0;
}

static int64_t ts_to_ns (const struct timespec *ts) {
	if (ts->tv_sec > INT64_MAX / MC_NS - 1) return MC_NEVER - 1;
	return ts->tv_sec * MC_NS + ts->tv_nsec;
}

/* Modelled futex system call (DESIGN 5).  Value check and going to sleep are one atomic step. */
long mc_syscall (long nr, ...) {
	va_list ap; va_start (ap, nr);
	int *uaddr = va_arg (ap, int *); int op = va_arg (ap, int); int val = va_arg (ap, int);
	const struct timespec *ts = va_arg (ap, const struct timespec *);
	va_end (ap);
	void *pc = __builtin_return_address (0);
	int me = cur; char nb[64];
	if (nr != SYS_futex) { violation (pc, "harness: unexpected system call %ld", nr); errno = ENOSYS; return -1; }
	int cmd = op & 127;
	if (me < 0) { if (cmd == FUTEX_WAKE) return 0; die ("futex wait during init"); }
	if (cmd == FUTEX_WAIT_BITSET || cmd == FUTEX_WAIT) {
		sched_point (0);
		site (pc);
		/* An iteration that went through a kernel wait is not a pure function of shared memory (its
		   outcome depends on wake-ups and on the clock): it must never be parked as a no-op spin. */
		F[me].dm.overflow = 1;
		if (check_live (uaddr, 4, "futex wait", pc)) { errno = EFAULT; return -1; }
		if (ts && (ts->tv_sec < 0 || ts->tv_nsec < 0 || ts->tv_nsec >= MC_NS)) {
			if (opt_verbose) printf ("  T%d futex_wait %s -> EINVAL (timespec {%ld,%ld})\n", me, addr_name (uaddr, nb, sizeof nb), (long)ts->tv_sec, ts->tv_nsec);
			errno = EINVAL; return -1;
		}
		if (*(volatile int *)uaddr != val) {
			if (opt_verbose) printf ("  T%d futex_wait %s -> EAGAIN (value %d != %d)\n", me, addr_name (uaddr, nb, sizeof nb), *uaddr, val);
			errno = EAGAIN; return -1;
		}
		int64_t dl = MC_NEVER;
		if (ts) { dl = ts_to_ns (ts); if (cmd == FUTEX_WAIT) dl = now_ns + dl; }
		F[me].st = ST_FUTEX; F[me].futex_addr = uaddr; F[me].woken = 0; F[me].fault = 0; F[me].dl = dl; F[me].blocks += F[me].blocks_armed; F[me].sleeps += F[me].blocks_armed;
		if (opt_verbose) printf ("  T%d futex_wait %s sleeps (deadline %s%lld ns)\n", me, addr_name (uaddr, nb, sizeof nb), dl == MC_NEVER ? "none " : "T0+", dl == MC_NEVER ? 0LL : (long long)(dl - MC_T0));
		mc_switch_ (&F[me].sp, main_sp);
		F[me].st = ST_RUN; F[me].dl = MC_NEVER;
		if (F[me].woken) { if (opt_verbose) printf ("  T%d futex_wait -> 0 (woken)\n", me); return 0; }
		if (F[me].fault) { int e = F[me].fault; F[me].fault = 0; if (opt_verbose) printf ("  T%d futex_wait -> errno %d (injected)\n", me, e); errno = e; return -1; }
		if (opt_verbose) printf ("  T%d futex_wait -> ETIMEDOUT\n", me);
		errno = ETIMEDOUT; return -1;
	} else if (cmd == FUTEX_WAKE) {
		sched_point (0);
		site (pc);
		if (check_live (uaddr, 4, "futex wake", pc)) { errno = EFAULT; return -1; }
		int n = 0;
		for (int i = 0; i < nfib && n < val; i++) if (F[i].st == ST_FUTEX && F[i].futex_addr == uaddr && !F[i].woken) { F[i].woken = 1; n++; }
		if (opt_verbose) printf ("  T%d futex_wake %s -> %d\n", me, addr_name (uaddr, nb, sizeof nb), n);
		return n;
	}
	violation (pc, "harness: unexpected futex op %d", op);
	errno = ENOSYS; return -1;
}

/* Built-in binary semaphore: the weakest object internal/sem.h allows.  Linked
   instead of nsync_semaphore_futex.c in the binsem configurations (binsem.c
   forwards nsync_mu_semaphore_* here).  No happens-before edge is credited. */
void mc_binsem_init (int *s) { if (cur >= 0 && !own_stack (s)) dm_note ((uintptr_t)s, 4); *s = 0; }
int mc_binsem_p (int *s, int has_dl, int64_t dl) {
	void *pc = __builtin_return_address (0);
	int me = cur; char nb[64];
	if (me < 0) die ("semaphore P during init");
	sched_point (0);
	F[me].dm.overflow = 1;     /* see mc_syscall: an iteration that waits on a semaphore is never a no-op spin */
	for (;;) {
		if (check_live (s, 4, "semaphore P", pc)) return 0;
		if (*(volatile int *)s != 0) { dm_note ((uintptr_t)s, 4); *s = 0; if (opt_verbose) printf ("  T%d semP %s -> taken\n", me, addr_name (s, nb, sizeof nb)); return 0; }
		if (has_dl && dl <= now_ns) { if (opt_verbose) printf ("  T%d semP %s -> ETIMEDOUT\n", me, addr_name (s, nb, sizeof nb)); return ETIMEDOUT; }
		F[me].st = ST_SEMP; F[me].futex_addr = s; F[me].dl = has_dl ? dl : MC_NEVER; F[me].blocks += F[me].blocks_armed; F[me].sleeps += F[me].blocks_armed;
		if (opt_verbose) printf ("  T%d semP %s sleeps\n", me, addr_name (s, nb, sizeof nb));
		mc_switch_ (&F[me].sp, main_sp);
		F[me].st = ST_RUN; F[me].dl = MC_NEVER;
	}
}
void mc_binsem_v (int *s) {
	void *pc = __builtin_return_address (0); char nb[64];
	if (cur < 0) { *s = 1; return; }
	sched_point (0);
	if (check_live (s, 4, "semaphore V", pc)) return;
	dm_note ((uintptr_t)s, 4);
	*s = 1;
	if (opt_verbose) printf ("  T%d semV %s\n", cur, addr_name (s, nb, sizeof nb));
}

/* ------------------------------------------------------------------ */
/* state hashing and the visited table                                */

static inline void hmix (uint64_t h[2], uint64_t w) {
	h[0] = (h[0] ^ w) * 0x9E3779B97F4A7C15ULL; h[0] ^= h[0] >> 29;
	h[1] = (h[1] + w) * 0xC2B2AE3D27D4EB4FULL; h[1] = (h[1] << 31) | (h[1] >> 33);
}
static void hbytes (uint64_t h[2], const void *p, size_t n) {
	const uint64_t *w = p; size_t k = n / 8;
	for (size_t i = 0; i < k; i++) hmix (h, w[i]);
	if (n & 7) { uint64_t t = 0; memcpy (&t, (const char *)p + k * 8, n & 7); hmix (h, t); }
	hmix (h, n);
}
static char *mc_snap;
static FILE *hashdbg;
static void state_hash (int last, uint64_t h[2]) {
	h[0] = 0x1234567887654321ULL; h[1] = 0xfedcba9876543210ULL;
	if (hashdbg) {
		uint64_t a[2] = {1,2}, m[2] = {1,2};
		hbytes (a, ARENA_BASE, arena_off); hbytes (m, __start_mcstate, __stop_mcstate - __start_mcstate);
		fprintf (hashdbg, "%016lx %016lx", a[0], m[0]);
		for (int i = 0; i < nfib; i++) { uint64_t s[2] = {1,2}; if (F[i].st != ST_DONE) hbytes (s, F[i].sp, F[i].stack + STK - (char *)F[i].sp); fprintf (hashdbg, " %d:%ld:%016lx", F[i].st, F[i].stack + STK - (char *)F[i].sp, s[0]); }
		fprintf (hashdbg, "\n");
	}
	hbytes (h, ARENA_BASE, arena_off);
	for (int i = 0; i < nblk; i++) hmix (h, blks[i].live);
	/* static state of the code under test and of the harness: only the 64-byte chunks that differ
	   from the start-up snapshot are hashed (with their position); most of it belongs to families
	   that are not running and never changes */
	{
		size_t msz = __stop_mcstate - __start_mcstate, off;
		for (off = 0; off + 64 <= msz; off += 64)
			if (memcmp (__start_mcstate + off, mc_snap + off, 64) != 0) { hmix (h, off); hbytes (h, __start_mcstate + off, 64); }
		if (off < msz && memcmp (__start_mcstate + off, mc_snap + off, msz - off) != 0) { hmix (h, off); hbytes (h, __start_mcstate + off, msz - off); }
	}
	for (int i = 0; i < nfib; i++) {
		struct fiber *f = &F[i];
		hmix (h, (uint64_t)f->st | ((uint64_t)f->woken << 8) | ((uint64_t)f->fault << 16) | ((uint64_t)f->blocks << 32) | ((uint64_t)f->sleeps << 48) | ((uint64_t)f->blocks_armed << 24));
		if (f->st == ST_DONE) continue;
		hmix (h, (uint64_t)f->futex_addr); hmix (h, (uint64_t)f->dl); hmix (h, (uint64_t)f->await);
		hmix (h, (uint64_t)f->tls_waiter); hmix (h, (uint64_t)f->dest);
		hbytes (h, f->sp, f->stack + STK - (char *)f->sp);
		/* delta map, canonical: only entries that currently differ matter (an entry whose word
		   holds its recorded value again is equivalent to no entry); order-independent sum */
		uint64_t s0 = f->dm.overflow + 2 * f->dm.active, s1 = f->dm.active ? f->dm.depth : 0;
		if (f->dm.active && !f->dm.overflow) for (int k = 0; k < f->dm.n; k++) {
			uint64_t c = *(volatile uint64_t *)f->dm.a[k];
			if (c != f->dm.old[k]) { uint64_t t[2] = { f->dm.a[k], f->dm.old[k] }; hmix (t, f->dm.old[k]); s0 += t[0]; s1 += t[1]; }
		}
		hmix (h, s0); hmix (h, s1);
	}
	hmix (h, (uint64_t)now_ns); hmix (h, boundP < 99 ? (uint64_t)(last + 1) : 0); hmix (h, (uint64_t)fault_mask);
	hmix (h, (uint64_t)alloc_count | ((uint64_t)fail_alloc_at << 32));
	uint64_t si = 0; for (int i = 0; i < ninst; i++) si += (uint64_t)instants[i] * 0x9E3779B97F4A7C15ULL; hmix (h, si);
	h[0] ^= h[1] >> 17; h[1] ^= h[0] << 13;
}

struct vent { uint64_t k0, k1; };   /* k1's low byte holds min P used; k0==0 && k1==0 = empty */
static struct vent *vtab; static uint64_t vmask; static long vcount;
static void vt_init (void) {
	uint64_t n = 1 << 16; vmask = n - 1;
	vtab = calloc (n, sizeof *vtab); if (!vtab) die ("out of memory");
}
static void vt_grow (void) {
	uint64_t on = vmask + 1, n = on * 2; struct vent *o = vtab;
	vtab = calloc (n, sizeof *vtab); if (!vtab) die ("out of memory (visited table)");
	vmask = n - 1;
	for (uint64_t i = 0; i < on; i++) if (o[i].k0 | o[i].k1) {
		uint64_t h = o[i].k0 & vmask;
		while (vtab[h].k0 | vtab[h].k1) h = (h + 1) & vmask;
		vtab[h] = o[i];
	}
	free (o);
}
/* returns 1 if the state was already visited with no more preemptions used */
static int vt_visit (uint64_t h[2], int e_used, int p_used) {
	/* a visit with fewer environment deviations used (and no more preemptions) subsumes this one */
	for (int e = 0; e < e_used; e++) {
		uint64_t k0 = h[0] ^ ((uint64_t)e * 0xD6E8FEB86659FD93ULL), k1 = (h[1] & ~0xffULL);
		if ((k0 | k1) == 0) k0 = 1;
		for (uint64_t i = k0 & vmask; vtab[i].k0 | vtab[i].k1; i = (i + 1) & vmask)
			if (vtab[i].k0 == k0 && (vtab[i].k1 & ~0xffULL) == k1) { if ((int)(vtab[i].k1 & 0xff) <= p_used) return 1; break; }
	}
	uint64_t k0 = h[0] ^ ((uint64_t)e_used * 0xD6E8FEB86659FD93ULL), k1 = (h[1] & ~0xffULL);
	if ((k0 | k1) == 0) k0 = 1;
	uint64_t i = k0 & vmask;
	for (;;) {
		struct vent *v = &vtab[i];
		if ((v->k0 | v->k1) == 0) break;
		if (v->k0 == k0 && (v->k1 & ~0xffULL) == k1) {
			int p = (int)(v->k1 & 0xff);
			if (p <= p_used) return 1;
			v->k1 = k1 | (uint64_t)p_used;
			return 0;
		}
		i = (i + 1) & vmask;
	}
	if (vcount >= opt_maxstates) { capped |= 2; return 0; }
	vtab[i].k0 = k0; vtab[i].k1 = k1 | (uint64_t)(p_used > 255 ? 255 : p_used);
	vcount++; n_states++;
	if ((uint64_t)vcount * 10 > (vmask + 1) * 6) vt_grow ();
	return 0;
}

/* distinct outcomes */
#define OUTN 256
static char *outs[OUTN]; static unsigned long outcnt[OUTN]; static int nouts;
static void outcome_record (void) {
	for (int i = 0; i < nouts; i++) if (!strcmp (outs[i], outcome)) { outcnt[i]++; return; }
	if (nouts < OUTN) { outs[nouts] = strdup (outcome); outcnt[nouts] = 1; nouts++; }
}

/* distinct violations */
struct vrec { char msg[512]; void *pc[3]; int depth; int *choices; unsigned long count; int p, e; };
static struct vrec vrecs[16]; static int nvrecs;

/* ------------------------------------------------------------------ */
/* one execution                                                      */

enum { OPT_TICK = 100, OPT_QUIESCE = 300, OPT_END = 301, OPT_FAULT = 400 };

static int enabled (int i) {
	struct fiber *f = &F[i];
	switch (f->st) {
	case ST_RUN: case ST_YIELDED: return 1;
	case ST_PARKED: return dm_changed (i);
	case ST_FUTEX: return f->woken || f->fault || f->dl <= now_ns;
	case ST_SEMP: return *(volatile int *)f->futex_addr != 0 || f->dl <= now_ns;
	case ST_AWAIT: return *f->await != 0;
	case ST_SLEEP: return f->dl <= now_ns;
	default: return 0;
	}
}
static int64_t next_instant (void) {
	int64_t t = MC_NEVER;
	for (int i = 0; i < nfib; i++) if ((F[i].st == ST_FUTEX || F[i].st == ST_SEMP || F[i].st == ST_SLEEP) && !F[i].woken && F[i].dl > now_ns && F[i].dl < t) t = F[i].dl;
	for (int i = 0; i < ninst; i++) if (instants[i] > now_ns && instants[i] < t) t = instants[i];
	return t;
}


/* Runs one execution following choice[0..prefix_len) and then the default
   (first) option.  Returns 0 completed, 1 violation, 2 pruned, 3 horizon. */
static int run_execution (void) {
	size_t msz = __stop_mcstate - __start_mcstate;
	if (!mc_snap) { mc_snap = malloc (msz); memcpy (mc_snap, __start_mcstate, msz); }
	else { size_t off; for (off = 0; off < msz; off += 256) { size_t n = msz - off < 256 ? msz - off : 256; if (memcmp (__start_mcstate + off, mc_snap + off, n) != 0) memcpy (__start_mcstate + off, mc_snap + off, n); } }
	memset (ARENA_BASE, 0, arena_hi); arena_off = 0; arena_hi = 0; nblk = 0; alloc_count = 0; fail_alloc_at = 0;
	now_ns = MC_T0; ninst = 0; fault_mask = 0; nnames = 0; hint_next = -1;
	have_viol = 0; viol[0] = 0; viol_pc[0] = viol_pc[1] = viol_pc[2] = 0;
	outcome_len = 0; outcome[0] = 0;
	if (opt_hb) sh_reset ();
	cur = -1; nfib = 0;
	fam->init ();
	nfib = nscen + (fam->observer ? 1 : 0);
	for (int i = 0; i < nfib; i++) fiber_create (i, fam->observer && i == nscen);
	depth = 0; usedP = usedE = 0;
	int last = -1, result = 0;
	n_execs++;
	for (;;) {
		int opts[MAXF + 2 + MAXF*3], no = 0, nthr = 0, pre = 0, has_tick = 0, tickcost = 0;
		int hint = hint_next; hint_next = -1;
		if (hint >= 0 && hint < nfib && hint != last && enabled (hint) && !(last >= 0 && F[last].st == ST_RUN)) opts[no++] = hint; else hint = -1;
		if (last >= 0 && enabled (last)) { opts[no++] = last; pre = (F[last].st == ST_RUN); }
		for (int i = 0; i < nfib; i++) if (i != last && i != hint && enabled (i)) opts[no++] = i;
		nthr = no;
		int64_t ni = next_instant ();
		if (ni != MC_NEVER) { opts[no++] = OPT_TICK; has_tick = 1; tickcost = nthr > 0; }
		if (nthr == 0 && !has_tick) {
			/* quiescent: wake the observer if it is waiting, else the execution ends */
			int ob = -1;
			for (int i = 0; i < nfib; i++) if (F[i].observer && F[i].st == ST_QUIESCE) ob = i;
			opts[no++] = ob >= 0 ? OPT_QUIESCE + 1000 * ob : OPT_END;
		}
		if (fault_mask) for (int i = 0; i < nfib; i++) if (F[i].st == ST_FUTEX && !F[i].woken && !F[i].fault) {
			if (fault_mask & MC_FAULT_EINTR) opts[no++] = OPT_FAULT + i * 8 + 0;
			if (fault_mask & MC_FAULT_EAGAIN) opts[no++] = OPT_FAULT + i * 8 + 1;
			if ((fault_mask & MC_FAULT_EARLY_TIMEOUT) && F[i].dl != MC_NEVER && F[i].dl > now_ns) opts[no++] = OPT_FAULT + i * 8 + 2;
		}
		if (depth >= MAXD - 1) die ("decision record overflow");
		int c = depth < prefix_len ? choice[depth] : 0;
		if (c >= no) die ("replay divergence at decision %d: choice %d of %d options (nondeterminism in the harness or runtime)", depth, c, no);
		choice[depth] = c; nopt[depth] = no; pt_nthr[depth] = nthr; pt_pre[depth] = pre; pt_tick[depth] = has_tick; pt_tickcost[depth] = tickcost;
		/* cost of this choice */
		if (c < nthr) { if (c > 0 && (pre || opt_strict) && boundP < 99) usedP++; }
		else if (has_tick && c == nthr) { usedE += tickcost; }
		else if (opts[c] >= OPT_FAULT && opts[c] < OPT_QUIESCE + 1000) usedE++;
		depth++;
		int o = opts[c];
		if (o == OPT_END) break;
		if (o == OPT_TICK) {
			if (nthr == 0 && fam->idle) { cur = -1; fam->idle (); if (have_viol) { result = 1; break; } }
			now_ns = ni;
			if (opt_verbose) printf ("[%d] tick: clock -> T0+%lld ns%s\n", depth - 1, (long long)(now_ns - MC_T0), tickcost ? " (costs E)" : "");
		} else if (o >= OPT_FAULT && o < OPT_QUIESCE + 1000) {
			int i = (o - OPT_FAULT) / 8, k = (o - OPT_FAULT) % 8;
			F[i].fault = k == 0 ? EINTR : k == 1 ? EAGAIN : ETIMEDOUT;
			if (opt_verbose) printf ("[%d] fault: futex wait of T%d returns errno %d\n", depth - 1, i, F[i].fault);
		} else {
			static int i; i = o >= OPT_QUIESCE ? (o - OPT_QUIESCE) / 1000 : o;
			if (opt_verbose) printf ("[%d] run T%d%s%s\n", depth - 1, i, (c > 0 && c < nthr && pre) ? " (preemption)" : "", o >= OPT_QUIESCE ? " (observer at quiescence)" : "");
			cur = i; last = i;
			n_steps++;
			if (depth > prefix_len) n_steps_new++;
			in_fiber_run = 1;
			if (sigsetjmp (crash_jmp, 0) == 0) mc_switch_ (&main_sp, F[i].sp);
			in_fiber_run = 0;
			cur = -1;
			if (F[i].st != ST_DONE) {   /* canonicalise: frames popped since the last point leave no garbage for new ones */
				char *lo = (char *)F[i].sp - 2048, *lim = F[i].stack + STK - STK_USABLE;
				if (lo < lim) lo = lim;
				if (lo < (char *)F[i].sp) memset (lo, 0, (char *)F[i].sp - lo);
				/* everything a step may have dirtied lies above sp - 8 KiB (sched_point checks the depth of
				   the deepest frames separately); remember how far down the next reset has to clear */
				if ((char *)F[i].sp - 8192 < stack_low[i]) stack_low[i] = (char *)F[i].sp - 8192 < lim ? lim : (char *)F[i].sp - 8192;
			}
			if (have_viol) { result = 1; break; }
		}
		if (depth >= opt_horizon) { n_horizon++; result = 3; snprintf (viol, sizeof viol, "horizon: execution exceeded %d scheduling decisions (livelock?)", opt_horizon); have_viol = 1; result = 1; break; }
		if (!opt_nohash && depth >= prefix_len) {
			uint64_t h[2]; state_hash (last, h);
			path_h0[depth - 1] = h[0]; path_h1[depth - 1] = h[1]; path_who[depth - 1] = (o == OPT_TICK || (o >= OPT_FAULT && o < OPT_QUIESCE + 1000)) ? -1 : (signed char)last;
			if (vt_visit (h, usedE, usedP)) {
				/* Non-progress cycle: the state equals one this very execution was in before, every step
				   since then was a thread step, every thread that can run at all took part (so a fair
				   scheduler can repeat the cycle for ever) and no clock tick is pending that could break
				   it: the threads involved never return.  (Loops that go through nsync_spin_delay_ are
				   handled by the park rule; this catches retry loops that contain no yield.) */
				int lo = depth - 2 - 4096; if (lo < prefix_len) lo = prefix_len;
				for (int d = depth - 2; d >= lo; d--) if (path_h0[d] == h[0] && path_h1[d] == h[1]) {
					unsigned ran = 0, en = 0; int pure = 1;
					for (int k = d + 1; k < depth; k++) { if (path_who[k] < 0) pure = 0; else ran |= 1u << path_who[k]; }
					for (int i = 0; i < nfib; i++) if (enabled (i)) en |= 1u << i;
					if (pure && ran != 0 && (en & ~ran) == 0 && next_instant () == MC_NEVER) {
						char b[120]; int n = 0;
						for (int i = 0; i < nfib && n < 100; i++) if (ran & (1u << i)) n += snprintf (b + n, sizeof b - n, " T%d", i);
						cur = -1;
						violation (NULL, "livelock: non-progress cycle:%s repeat the same steps for ever (the state recurs, no other thread can run, no clock tick is pending)", b);
						for (int i = 0; i < nfib; i++) if ((ran & (1u << i)) && F[i].ncs > 0) { viol_pc[2] = F[i].cs[F[i].ncs - 1 < 47 ? F[i].ncs - 1 : 47]; break; }
						result = 1;
					}
					break;
				}
				if (result == 1) break;
				n_pruned++; result = 2; break;
			}
		}
	}
	if (depth > max_depth) max_depth = depth;
	if (result == 0) {
		/* terminal state: everybody must have finished */
		int unfinished = 0;
		for (int i = 0; i < nfib; i++) if (F[i].st != ST_DONE) unfinished++;
		if (unfinished) {
			char b[300]; int n = 0; int spinners = 0, sleepers = 0;
			for (int i = 0; i < nfib; i++) if (F[i].st != ST_DONE) {
				char nb[64];
				n += snprintf (b + n, sizeof b - n, " T%d:%s", i, st_name[F[i].st]);
				if (F[i].st == ST_FUTEX || F[i].st == ST_SEMP) { n += snprintf (b + n, sizeof b - n, "(%s)", addr_name (F[i].futex_addr, nb, sizeof nb)); sleepers++; }
				if (F[i].st == ST_PARKED) spinners++;
				if (n > 250) break;
			}
			cur = -1;
			violation (NULL, "%s: no thread can run and no clock tick is pending, but not all threads finished:%s", sleepers ? "deadlock / lost wake-up" : spinners ? "livelock (only parked spinners remain)" : "stuck", b);
			/* attribute to the first blocked fiber's innermost call site */
			for (int i = 0; i < nfib; i++) if (F[i].st != ST_DONE && F[i].ncs > 0) { viol_pc[2] = F[i].cs[F[i].ncs - 1 < 47 ? F[i].ncs - 1 : 47]; break; }
			result = 1;
		} else {
			if (fam->final) { cur = -1; fam->final (); if (have_viol) result = 1; }
			n_complete_execs++;
			if (result == 0) outcome_record ();
		}
	}
	return result;
}

/* ------------------------------------------------------------------ */
/* depth-first exploration                                            */

static void cost_of (int d, int k, int *dp, int *de) {
	*dp = *de = 0;
	int nthr = pt_nthr[d];
	if (k < nthr) { if (k > 0 && (pt_pre[d] || opt_strict) && boundP < 99) *dp = 1; }
	else if (pt_tick[d] && k == nthr) *de = pt_tickcost[d];
	else if (nthr == 0 && !pt_tick[d] && k == 0) ;
	else *de = 1;
}

static void record_violation (void) {
	for (int i = 0; i < nvrecs; i++)
		if (vrecs[i].pc[0] == viol_pc[0] && vrecs[i].pc[2] == viol_pc[2] && !strncmp (vrecs[i].msg, viol, 40)) { vrecs[i].count++; return; }
	if (nvrecs >= 16) return;
	struct vrec *v = &vrecs[nvrecs++];
	snprintf (v->msg, sizeof v->msg, "%s", viol); memcpy (v->pc, viol_pc, sizeof v->pc);
	v->depth = depth; v->choices = malloc (sizeof (int) * (depth + 1)); memcpy (v->choices, choice, sizeof (int) * depth);
	v->count = 1; v->p = usedP; v->e = usedE;
}

static void json_str (FILE *fp, const char *s) {
	fputc ('"', fp);
	for (; *s; s++) { if (*s == '"' || *s == '\\') { fputc ('\\', fp); fputc (*s, fp); } else if ((unsigned char)*s < 32) fprintf (fp, "\\u%04x", *s); else fputc (*s, fp); }
	fputc ('"', fp);
}

static int *parse_choices (const char *s, int *n) {
	int cap = 1024, k = 0; int *v = malloc (cap * sizeof *v);
	while (*s) {
		while (*s == ' ' || *s == ',') s++;
		if (!*s) break;
		if (k == cap) { cap *= 2; v = realloc (v, cap * sizeof *v); }
		v[k++] = (int)strtol (s, (char **)&s, 10);
	}
	*n = k; return v;
}

int main (int argc, char **argv) {
	const char *famname = NULL, *replay = NULL, *sample_prefix = NULL;
	int want_sample = 0, selftest_det = 0;
	for (int i = 1; i < argc; i++) {
		const char *a = argv[i];
#define ARG(n) (!strcmp (a, n) && i + 1 < argc)
		if (ARG ("--family")) famname = argv[++i];
		else if (ARG ("--program")) program = argv[++i];
		else if (ARG ("--config")) config_name = argv[++i];
		else if (ARG ("--P")) boundP = atoi (argv[++i]);
		else if (ARG ("--E")) boundE = atoi (argv[++i]);
		else if (ARG ("--horizon")) opt_horizon = atoi (argv[++i]);
		else if (ARG ("--deadline")) opt_deadline_s = atof (argv[++i]);
		else if (ARG ("--maxstates")) opt_maxstates = atol (argv[++i]);
		else if (ARG ("--maxexecs")) opt_maxexecs = atol (argv[++i]);
		else if (ARG ("--maxviol")) opt_maxviol = atoi (argv[++i]);
		else if (ARG ("--replay")) replay = argv[++i];
		else if (ARG ("--prefix")) sample_prefix = argv[++i];
		else if (!strcmp (a, "--nohash")) opt_nohash = 1;
		else if (!strcmp (a, "--hb")) { opt_hb = 1; opt_nohash = 1; }
		else if (!strcmp (a, "--sem-hb=off")) opt_semhb = 0;
		else if (!strcmp (a, "--hb-scope=cut")) opt_hb_cut = 1;
		else if (!strcmp (a, "--verbose")) opt_verbose = 1;
		else if (!strcmp (a, "--strict")) opt_strict = 1;
		else if (!strcmp (a, "--sample")) want_sample = 1;
		else if (!strcmp (a, "--selftest-determinism")) selftest_det = 1;
		else if (!strcmp (a, "--list-families")) { for (int k = 0; mc_families[k]; k++) puts (mc_families[k]->name); return 0; }
		else die ("unknown argument %s", a);
	}
	if (!famname) die ("--family required");
	for (int k = 0; mc_families[k]; k++) if (!strcmp (mc_families[k]->name, famname)) fam = mc_families[k];
	if (!fam) die ("unknown family %s", famname);
	setvbuf (stdout, NULL, _IOFBF, 1 << 16);

	if (mmap (ARENA_BASE, ARENA_SIZE, PROT_READ | PROT_WRITE, MAP_PRIVATE | MAP_ANONYMOUS | MAP_FIXED_NOREPLACE, -1, 0) != (void *)ARENA_BASE) die ("cannot map arena");
	for (int i = 0; i < MAXF; i++) {
		/* a PROT_NONE guard page below each stack */
		char *g = mmap (STACK_BASE (i) - 4096, STK + 4096, PROT_READ | PROT_WRITE, MAP_PRIVATE | MAP_ANONYMOUS | MAP_FIXED_NOREPLACE, -1, 0);
		if (g != STACK_BASE (i) - 4096) die ("cannot map fiber stack");
		mprotect (g, 4096, PROT_NONE);
		F[i].stack = STACK_BASE (i);
	}
	shtab = calloc (1 << SHBITS, sizeof *shtab);
	static char altstack[65536];
	stack_t ss = { .ss_sp = altstack, .ss_size = sizeof altstack, .ss_flags = 0 };
	sigaltstack (&ss, NULL);
	struct sigaction sa; memset (&sa, 0, sizeof sa); sa.sa_sigaction = on_crash; sa.sa_flags = SA_SIGINFO | SA_ONSTACK | SA_NODEFER;
	sigaction (SIGSEGV, &sa, NULL); sigaction (SIGBUS, &sa, NULL); sigaction (SIGFPE, &sa, NULL); sigaction (SIGILL, &sa, NULL); sigaction (SIGABRT, &sa, NULL);

	arena_hi = 0;
	nscen = fam->setup (program);
	if (nscen < 0) { printf ("{\"family\":\"%s\",\"program\":", famname); json_str (stdout, program); printf (",\"illegal\":true}\n"); return 0; }
	if (nscen < 1 || nscen + (fam->observer ? 1 : 0) > MAXF) die ("bad thread count %d", nscen);
	vt_init ();
	if (getenv ("NSMC_HASHDBG")) hashdbg = fopen (getenv ("NSMC_HASHDBG"), "w");
	double t0 = wall ();

	if (replay) {
		/* --replay "<choices>": re-execute exactly that schedule, verbosely, twice; the two runs must agree */
		int n; int *v = parse_choices (replay, &n);
		if (n >= MAXD) die ("replay too long");
		opt_nohash = 1;
		char first[512]; int r1, d1;
		int verbose_req = opt_verbose; opt_verbose = 0;
		memcpy (choice, v, n * sizeof (int)); prefix_len = n; r1 = run_execution (); d1 = depth; snprintf (first, sizeof first, "%s", viol);
		opt_verbose = 1; (void)verbose_req;
		memcpy (choice, v, n * sizeof (int)); prefix_len = n;
		int r2 = run_execution ();
		int same = (r1 == r2 && d1 == depth && !strcmp (first, viol));
		printf ("replay: result=%s decisions=%d usedP=%d usedE=%d deterministic=%s\n", r2 == 1 ? "VIOLATION" : "ok", depth, usedP, usedE, same ? "yes" : "NO");
		if (r2 == 1) printf ("violation: %s\n  pc=%p other_pc=%p caller_pc=%p\n", viol, viol_pc[0], viol_pc[1], viol_pc[2]);
		else printf ("outcome: %s\n", outcome);
		if (!same) { printf ("REPLAY-DIVERGENCE first run: %s\n", first); return 3; }
		return r2 == 1 ? 1 : 0;
	}

	int plen0 = 0;
	if (sample_prefix) { int n; int *v = parse_choices (sample_prefix, &n); memcpy (choice, v, n * sizeof (int)); plen0 = n; }
	prefix_len = plen0;
	char *sample = NULL; char *sample_out = NULL; int sample_dev = 0; int det_checked = 0, det_ok = 1;
	for (;;) {
		int r = run_execution ();
		if (r == 1) { record_violation (); if (nvrecs >= opt_maxviol) { capped |= 4; break; } }
		if (r == 0 && want_sample && (!sample || (!sample_dev && usedP + usedE > 0))) {
			free (sample); free (sample_out); sample_dev = usedP + usedE > 0;
			size_t cap = depth * 4 + 16; sample = malloc (cap); int n = 0;
			for (int i = 0; i < depth; i++) n += snprintf (sample + n, cap - n, "%s%d", i ? " " : "", choice[i]);
			sample_out = strdup (outcome);
		}
		if (r == 0 && selftest_det && det_checked < 3 && (n_execs % 7) == 1) {
			/* determinism self-check: re-run the schedule just completed and compare */
			int d1 = depth; static char o1[2048]; snprintf (o1, sizeof o1, "%s", outcome);
			static int save[MAXD]; memcpy (save, choice, d1 * sizeof (int));
			int spl = prefix_len; int snh = opt_nohash; opt_nohash = 1; prefix_len = d1;
			unsigned long e = n_execs, s = n_steps, sn = n_steps_new, ce = n_complete_execs;
			int r2 = run_execution ();
			if (r2 != 0 || depth != d1 || strcmp (o1, outcome)) det_ok = 0;
			n_execs = e; n_steps = s; n_steps_new = sn; n_complete_execs = ce;
			for (int i = 0; i < nouts; i++) if (!strcmp (outs[i], outcome)) { outcnt[i]--; break; }
			opt_nohash = snh; prefix_len = spl; memcpy (choice, save, d1 * sizeof (int)); depth = d1;
			/* recompute point records by trusting the identical re-run (same records) */
			det_checked++;
		}
		/* backtrack: deepest decision with an untried alternative that fits the budget */
		static int pb[MAXD + 1], eb[MAXD + 1];
		int p = 0, e = 0;
		for (int k = 0; k < depth; k++) { int dp, de; pb[k] = p; eb[k] = e; cost_of (k, choice[k], &dp, &de); p += dp; e += de; }
		int i;
		for (i = depth - 1; i >= plen0; i--) {
			int moved = 0;
			for (int c = choice[i] + 1; c < nopt[i]; c++) {
				int dp, de; cost_of (i, c, &dp, &de);
				if (pb[i] + dp <= boundP && eb[i] + de <= boundE) { choice[i] = c; prefix_len = i + 1; moved = 1; break; }
			}
			if (moved) break;
		}
		if (i < plen0) break;
		if ((n_execs & 255) == 0) {
			if (opt_deadline_s > 0 && wall () - t0 > opt_deadline_s) { capped |= 1; break; }
		}
		if (opt_maxexecs && (long)n_execs >= opt_maxexecs) { capped |= 8; break; }
	}
	double dt = wall () - t0;
	if (opt_nohash) n_states = n_steps_new;   /* stateless: nodes of the schedule tree */
	printf ("{\"config\":"); json_str (stdout, config_name);
	printf (",\"family\":"); json_str (stdout, famname);
	printf (",\"program\":"); json_str (stdout, program);
	printf (",\"threads\":%d,\"P\":%d,\"E\":%d,\"hash\":%s,\"hb\":%s,\"semhb\":%s", nscen, boundP, boundE, opt_nohash ? "false" : "true", opt_hb ? "true" : "false", opt_semhb ? "true" : "false");
	printf (",\"execs\":%lu,\"complete_execs\":%lu,\"pruned\":%lu,\"steps\":%lu,\"steps_new\":%lu,\"states\":%lu,\"max_depth\":%d,\"capped\":%d,\"complete\":%s,\"wall\":%.3f",
		n_execs, n_complete_execs, n_pruned, n_steps, n_steps_new, n_states, max_depth, capped, capped ? "false" : "true", dt);
	printf (",\"sites\":[");
	{ int first = 1; for (int i = 0; i < SITEN; i++) if (sites[i]) { printf ("%s%lu", first ? "" : ",", (unsigned long)sites[i]); first = 0; } }
	printf ("],\"outcomes\":{");
	for (int i = 0; i < nouts; i++) { if (i) putchar (','); json_str (stdout, outs[i]); printf (":%lu", outcnt[i]); }
	printf ("}");
	if (selftest_det) printf (",\"determinism_checked\":%d,\"determinism_ok\":%s", det_checked, det_ok ? "true" : "false");
	if (sample) { printf (",\"sample\":{\"schedule\":"); json_str (stdout, sample); printf (",\"outcome\":"); json_str (stdout, sample_out); printf ("}"); }
	printf (",\"violations\":[");
	for (int i = 0; i < nvrecs; i++) {
		struct vrec *v = &vrecs[i];
		if (i) putchar (',');
		printf ("{\"msg\":"); json_str (stdout, v->msg);
		printf (",\"pc\":[%lu,%lu,%lu],\"count\":%lu,\"usedP\":%d,\"usedE\":%d,\"schedule\":\"", (unsigned long)v->pc[0], (unsigned long)v->pc[1], (unsigned long)v->pc[2], v->count, v->p, v->e);
		for (int k = 0; k < v->depth; k++) printf ("%s%d", k ? " " : "", v->choices[k]);
		printf ("\"}");
	}
	printf ("]}\n");
	return nvrecs ? 1 : 0;
}
