#!/usr/bin/env python3
"""keep_seed.py <ID> <breaks-property> "<what it needs to manifest>" -- copy a confirmed seeded change from
/tmp/seed/<ID>/out into /verif/seeded/<ID>/ (patch.diff, demonstration, notes, meta.json)."""
import sys, os, json, shutil, glob, subprocess
sid, prop, needs = sys.argv[1], sys.argv[2], sys.argv[3]
root = os.environ.get('SEEDROOT', '/tmp/seed')
suffix = os.environ.get('SEEDSUFFIX', '')
src = '%s/%s/out' % (root, sid)
sid = sid + suffix
dst = '/verif/seeded/%s' % sid
os.makedirs(dst, exist_ok=True)
for f in glob.glob(src + '/*') + glob.glob(src + '/demo/*'):
    if os.path.isdir(f): continue
    b = os.path.basename(f)
    if b.endswith(('.c', '.sh', '.md', '.diff', '.h')):
        shutil.copy(f, os.path.join(dst, b))
ctest = ''
if os.path.exists(src + '/confirm.ctest.log'):
    for l in open(src + '/confirm.ctest.log'):
        if 'tests passed' in l: ctest = l.strip()
head = subprocess.run(['git', '-C', '/repo', 'log', '--format=%h', '-1'], stdout=subprocess.PIPE, text=True).stdout.strip()
meta = {'id': sid, 'breaks_property': prop, 'written_by': 'independent sub-agent given only the property text and a scratch worktree',
        'needs_to_manifest': needs, 'applies_to_repo_commit': head,
        'confirmed_by_me': {'where': 'scratch worktree of /repo HEAD under /tmp/confirm (removed afterwards)',
                            'repository_tests_with_change': ctest or 'see notes', 'demonstration': 'fails with the change, passes without it (3 runs each; tools/confirm_seed.sh or the seed\'s own build script)'},
        'checks': {}}
old = os.path.join(dst, 'meta.json')
if os.path.exists(old):
    try: meta['checks'] = json.load(open(old)).get('checks', {})
    except Exception: pass
json.dump(meta, open(old, 'w'), indent=1)
print('kept', dst, sorted(os.listdir(dst)))
