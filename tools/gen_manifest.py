#!/usr/bin/env python3
"""Writes /verif/MANIFEST.json (kept in one place so that it stays consistent with lib/properties.py)."""
import json, os, subprocess
V = os.path.dirname(os.path.dirname(os.path.abspath(__file__)))
hooks = subprocess.run(['git', '-C', '/repo', 'log', '--format=%H %s'], stdout=subprocess.PIPE, text=True).stdout.splitlines()
hook_commits = [l.split()[0] for l in hooks if 'verif hook' in l]

MC_NOTE = ('Trusted base: the exploration runtime engine/rt.c (own TSan-ABI runtime, fibers, scheduler, futex/clock/allocator models), gcc\'s -fsanitize=thread instrumentation as the hook mechanism, '
           'the scenario harness and its oracle for this property. Bounded: thread counts, operations per thread, preemption budget P and environment budget E as listed in the evidence; sequentially consistent interleavings only. '
           'Threads are interrupted at atomic operations, futex calls and yields; unsynchronised plain accesses between such points are covered by a separate stateless race pass of the same programs under the happens-before monitor (coverage.race_pass; not for C03, which is that monitor, nor C12/C16/C19). '
           'Thorough tiers go on to re-explore their programs with larger preemption budgets while time is left (coverage.iterated_bound).')
P = {
 'C01': ('model_checking', 'Every schedule (within P/E budgets) of lock/rlock/trylock/rtrylock, cv waits (plain, timed, cancelled, generic, wait_n), mu_wait and their wakers on one mutex, and of starved lockers with the long-wait threshold reduced, is executed on the real code; shadow occupancy asserted at every acquisition, at harness level and at nsync\'s own acquisition annotations; both semaphore flavours.', '7 C01', 'bounded exhaustive schedule exploration of the implementation (stateful DFS) + shadow-occupancy invariant'),
 'C02': ('model_checking', 'All schedules of 2-4 lockers (2 threads: up to unbounded preemptions in thorough) on the real mu.c and semaphore; any terminal state with an unfinished thread is a lost wake-up; try-locks must not block.', '7 C02', 'bounded exhaustive schedule exploration + terminal-state (deadlock / lost wake-up) detection'),
 'C03': ('model_checking', 'Stateless exploration of a core set of hand-off programs on all three atomic.h flavours with a vector-clock happens-before monitor that credits only the declared memory orders (C++20 release sequences), also with the semaphore\'s own orders downgraded to relaxed.', '4, 7 C03', 'bounded exhaustive schedule exploration (stateless) + vector-clock happens-before monitor over declared memory orders'),
 'C04': ('model_checking', 'All schedules and deadline placements of cv waiters of every kind against signallers/broadcasters; wake-up accounting by an observer at quiescence.', '7 C04', 'bounded exhaustive schedule + clock exploration, accounting oracle at quiescence'),
 'C05': ('model_checking', 'All orders of deadline vs note expiry vs wake-up for cv and mu timed/cancellable waits; result, reason and lock mode checked on every return; expired/cancelled waits never asleep at quiescence.', '7 C05', 'bounded exhaustive schedule + clock exploration, per-return oracle'),
 'C06': ('model_checking', 'All schedules of 2-4 conditional waiters with same/equivalent/different conditions, reader and writer mode, timeouts and cancellations removing waiters from the middle of the queue, cv waiters on the same mutex; obligation rule at quiescence; every condition evaluation checked for exclusion.', '7 C06', 'bounded exhaustive schedule exploration, obligation oracle at quiescence'),
 'C07': ('model_checking', 'All schedules of 2-4 callers mixing the four run_once entry points, two once objects sharing an internal slot (also nested and dependent initialisers), timer polling driven by virtual clock ticks.', '7 C07', 'bounded exhaustive schedule + clock exploration'),
 'C08': ('model_checking', 'Exhaustive enumeration of every tree of <=4 notes x deadline assignment (expiry, initial state, each single notify, final states), plus all schedules of notifiers/pollers/waiters with per-note observation histories.', '7 C08', 'exhaustive enumeration of trees x deadlines + bounded exhaustive schedule exploration with history oracle'),
 'C09': ('model_checking', 'All schedules of notify/poll/create-child/free (children created concurrently and freed after their parent included) on a parent-child-grandchild family, with every access checked against freed (poisoned, never reused) memory, progress, and adoption at the end.', '7 C09', 'bounded exhaustive schedule exploration + memory-liveness monitor'),
 'C10': ('model_checking', 'All schedules of add/value/wait (also through wait_n); brute-force linearizability of the returned values against an integer.', '7 C10', 'bounded exhaustive schedule exploration + brute-force linearizability check'),
 'C11': ('model_checking', 'All schedules and deadline placements of 1-2 wait_n callers over 1-5 objects (stack and heap bookkeeping) against notifiers/decrementers/signallers; readiness, timeout, clean-up and mutex-protocol oracles.', '7 C11', 'bounded exhaustive schedule + clock exploration'),
 'C12': ('model_checking', 'Complete interleavings (no preemption bound) of one waiter and 1-3 posters on nsync_semaphore_futex.c with every placement of up to k injected EINTR/EAGAIN/early-ETIMEDOUT returns.', '7 C12', 'complete interleaving exploration + fault injection enumeration on a futex model'),
 'C13': ('model_checking', 'All schedules of the reference-count pattern and of wakers against wait_n / cancellable waits; every instrumented access, atomic and futex argument checked against freed blocks and dead stack frames.', '7 C13', 'bounded exhaustive schedule exploration + memory-liveness monitor'),
 'C14': ('model_checking', 'All schedules (P<=2..3) of one or two victims and 1-3 bargers with LONG_WAIT_THRESHOLD reduced to 1..3 through the guarded hook; overtaking oracle at nsync\'s own acquisition events; and at the real threshold 30, fifteen scripted adversarial strategies (a fresh thread takes the mutex in every window between the victim\'s wake-up and its next attempt) with all single deviations from them.', '7 C14', 'bounded exhaustive schedule exploration with reduced threshold'),
 'C15': ('exploration', 'Complete table entry point x boundary deadline x event state x {C, C++} on the real futex, clock and kernel, each case in a forked child.', '7 C15', 'exhaustive enumeration of a finite case table on the real platform'),
 'C16': ('model_checking', 'All schedules of lockers/waiters/wakers with a thread calling the debug-state functions (all C01/C02/C04 oracles in force), and every n in 0..80 x 0..3 queued waiters x 4 functions against the untruncated reference with exact-size buffers.', '7 C16', 'bounded exhaustive schedule exploration + exhaustive enumeration of buffer sizes'),
 'C17': ('model_checking', 'Breadth-first search over ALL reachable abstract states of 5 (thorough: 7) elements and 2 lists; every applicable operation from every state executed by the real dll.c; traversals, links and predicted canonical state compared after every step.', '7 C17', 'explicit-state BFS with a reference model; every transition executed on the implementation'),
 'C18': ('exploration', 'Complete boundary grid against __int128 arithmetic for both builds; thorough: all 2^32 arguments of nsync_time_ms and nsync_time_us.', '7 C18', 'exhaustive enumeration of a boundary grid / the full 32-bit argument space'),
 'C19': ('fault_enumeration', 'For every scenario shape each allocation of the constructors is failed in turn (sequentially, and with a concurrent user of the parent under schedule exploration); NULL result, untouched parent and continued usability are checked.', '7 C19', 'fault enumeration (fail the k-th allocation for every k) + bounded schedule exploration'),
}
checks = []
for pid in sorted(P):
    lvl, text, ref, tech = P[pid]
    checks.append({
        'property_id': pid,
        'quick_cmd': './check %s quick' % pid,
        'thorough_cmd': './check %s thorough' % pid,
        'evidence_file': '/verif/evidence/%s.json' % pid,
        'replay_cmd_template': './check --replay {path}',
        'engine': 'nsmc' if lvl in ('model_checking', 'fault_enumeration') and pid not in ('C17',) else 'seq',
        'level_claimed': {'category': lvl, 'text': text, 'design_ref': 'DESIGN.md section ' + ref},
        'level_note': MC_NOTE if pid not in ('C15', 'C17', 'C18') else 'Trusted base: the checker program/script for this property (lib/seqchecks.py, seq/*.c), the C compiler, and for C15 the kernel and clock of the machine the check runs on.',
        'technique': tech,
    })
m = {
 'version': 1,
 'setup_cmd': './setup.sh',
 'hooks': {
   'guard': 'NSYNC_VERIF',
   'enable': 'build.sh compiles the nsync sources with -DNSYNC_VERIF (and -DNSYNC_VERIF_LONG_WAIT_THRESHOLD=T for C14); C15 and C18 build without the guard',
   'baseline_off_cmd': 'cd /repo && cmake -G Ninja -B _build >/dev/null && cmake --build _build >/dev/null && ctest --test-dir _build -j8 --timeout 900',
   'source_commits': hook_commits,
   'add_only': True,
 },
 'engines': [
   {'name': 'nsmc', 'path': '/verif/engine', 'serves_properties': [p for p in sorted(P) if p not in ('C15', 'C17', 'C18')],
    'kind_free_text': 'stateless-by-re-execution depth-first model checker for the real nsync code: own TSan-ABI runtime, fibers, preemption/environment budgets, visited-state pruning on a hash of the concrete state, virtual clock, modelled futex, memory-liveness and happens-before monitors'},
   {'name': 'seq', 'path': '/verif/lib/seqchecks.py', 'serves_properties': ['C15', 'C17', 'C18'],
    'kind_free_text': 'exhaustive enumeration drivers for sequential properties (explicit-state BFS for the list primitives; complete case tables for time arithmetic and deadline values)'},
 ],
 'checks': checks,
 'not_applicable': [],
 'notes': 'All 19 properties are decided by exhaustive enumeration within stated bounds (DESIGN.md). Genuine defects found and repaired are listed in known_findings.txt (fixed: lines) and DESIGN.md section 8.',
}
json.dump(m, open(os.path.join(V, 'MANIFEST.json'), 'w'), indent=1)
print('MANIFEST.json written:', len(checks), 'checks; hook commits', hook_commits)
