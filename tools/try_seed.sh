#!/bin/bash
# try_seed.sh <seed-dir> <ID>[,<ID>...] [tier]  -- run checks against a copy of /repo with a seeded change applied.
# The copy, its build output and the evidence/replays of the run live under /tmp and are removed afterwards
# (replays are kept in <seed-dir>/run/ for inspection).
set -u
seed=$1; ids=${2}; tier=${3:-quick}
V=$(cd "$(dirname "$0")/.." && pwd)
tmp=$(mktemp -d /tmp/nsync-verif.seed.XXXXXX)
trap 'git -C /repo worktree remove --force "$tmp/r" 2>/dev/null; rm -rf "$tmp" "$V"/build/*.seed$$' EXIT
git -C /repo worktree add -q "$tmp/r" HEAD || exit 2
git -C "$tmp/r" apply "$seed/patch.diff" || { echo "patch does not apply"; exit 2; }
mkdir -p "$seed/run"
rc=0
for id in ${ids//,/ }; do
  VERIF_REPO="$tmp/r" VERIF_OUT="$tmp/out" VERIF_BUILD_SUFFIX=".seed$$" "$V/check" $id $tier > "$seed/run/$id.$tier.log" 2>&1
  r=$?
  echo "== $id $tier: exit $r"; grep -E "^VIOLATION|^KNOWN|^C[0-9]+ |FRAMEWORK" "$seed/run/$id.$tier.log" | head -6
  grep -A2 "^VIOLATION" "$seed/run/$id.$tier.log" | sed -n 2,3p
  [ -d "$tmp/out/replays/$id" ] && { rm -rf "$seed/run/replays-$id"; cp -r "$tmp/out/replays/$id" "$seed/run/replays-$id"; }
  [ $r = 1 ] && rc=1
done
exit $rc
