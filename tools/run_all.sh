#!/bin/bash
# run_all.sh <tier> [ids...] -- run the given (default: all) checks one after the other, print exit codes and wall times
tier=${1:-quick}; shift
ids=${@:-C01 C02 C03 C04 C05 C06 C07 C08 C09 C10 C11 C12 C13 C14 C15 C16 C17 C18 C19}
cd "$(dirname "$0")/.."
for p in $ids; do
  s=$(date +%s)
  ./check $p $tier > /tmp/run_all.$p.$tier.log 2>&1; rc=$?
  e=$(( $(date +%s) - s ))
  echo "$p $tier exit=$rc wall=${e}s :: $(grep -E "^$p $tier" /tmp/run_all.$p.$tier.log | tail -1)"
  grep -E "^VIOLATION|^KNOWN-FINDING|FRAMEWORK" /tmp/run_all.$p.$tier.log | head -5
done
