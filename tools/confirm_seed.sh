#!/bin/bash
# confirm_seed.sh <ID> [demo-args...] -- independent confirmation of a seeded change, in a scratch worktree of
# /repo's HEAD: (1) the patch applies and the library builds, (2) the repository's 26 tests pass with it,
# (3) the demonstration fails with it and passes without it (standard build line; special demos are run by hand).
# Writes <seed>/confirm.log and prints a summary.  The scratch worktree is removed afterwards.
id=$1; shift
S=${SEEDROOT:-/tmp/seed}/$id/out; W=/tmp/confirm/$id
[ -f $S/patch.diff ] || { echo "no patch"; exit 2; }
rm -rf $W; git -C /repo worktree prune; git -C /repo worktree add -q $W HEAD || exit 2
trap 'git -C /repo worktree remove --force $W 2>/dev/null' EXIT
cd $W
git apply $S/patch.diff || { echo "$id: PATCH DOES NOT APPLY to current HEAD"; exit 2; }
{ cmake -G Ninja -B _build -S . && cmake --build _build; } > $S/confirm.build.log 2>&1 || { echo "$id: BUILD FAILS"; exit 2; }
ctest --test-dir _build -j6 --timeout 900 > $S/confirm.ctest.log 2>&1
t=$(grep "tests passed" $S/confirm.ctest.log)
if ! grep -q "100% tests passed" $S/confirm.ctest.log; then
  # timing-sensitive tests under load: re-run the failed ones once
  ctest --test-dir _build --rerun-failed --timeout 900 >> $S/confirm.ctest.log 2>&1
  t="$t / rerun: $(grep "tests passed" $S/confirm.ctest.log | tail -1)"
fi
echo "$id tests with change: $t"
if [ -f $S/demo.c ] && [ "${NODEMO:-}" = "" ]; then
  for which in base mut; do
    R=$W; [ $which = base ] && R=/tmp/confirm/base
    cc -O1 -g -pthread -I$R/public -I$R/platform/linux -I$R/platform/gcc -I$R/platform/posix -I$R/platform/x86_64 -I$R/internal $S/demo.c $R/_build/libnsync.a -lpthread -o /tmp/confirm/demo_${id}_$which 2>>$S/confirm.build.log || echo "demo build failed ($which)"
    pass=0; fail=0
    for i in 1 2 3; do timeout 300 /tmp/confirm/demo_${id}_$which "$@" > /tmp/confirm/demo_${id}_$which.out 2>&1 && pass=$((pass+1)) || fail=$((fail+1)); done
    echo "$id demo on $which library: pass=$pass fail=$fail  (last output: $(tail -1 /tmp/confirm/demo_${id}_$which.out | cut -c1-120))"
  done
fi
