#!/bin/bash
# seed_matrix.sh [tier] -- run every kept seeded change against the check of the property it targets and print
# one line per seed (detected / NOT detected).  Each run uses its own scratch worktree of /repo (removed afterwards).
tier=${1:-quick}
V=$(cd "$(dirname "$0")/.." && pwd)
for d in "$V"/seeded/C*/; do
  id=$(basename "$d"); prop=${id:0:3}
  out=$("$V/tools/try_seed.sh" "$d" "$prop" "$tier" 2>&1)
  if echo "$out" | grep -q "^VIOLATION"; then r=detected; else r="NOT detected"; fi
  first=$(echo "$out" | grep -m1 -E '^  (c-|C build|C\+\+ build|next/prev)' | cut -c1-160)
  echo "$id $prop $tier: $r :: $first"
  rm -rf "$d/run"
done
