/* Mixed use of one nsync_cv / one nsync_mu by a native waiter (nsync_cv_wait) and a waiter that
   passes the same nsync_mu through wrapper functions to nsync_cv_wait_with_deadline_generic.
   A broadcast issued with the mutex held transfers BOTH to the mutex queue; the generic waiter is
   then woken as designated waker but re-acquires with (*lock)(), which never clears
   MU_DESIG_WAKER: from then on no unlock wakes anybody. */
#include <stdio.h>
#include <stdlib.h>
#include <pthread.h>
#include <unistd.h>
#include "nsync.h"
static nsync_mu mu; static nsync_cv cv; static int flag; static volatile int queued, got;
static void glock (void *v) { nsync_mu_lock ((nsync_mu *) v); }
static void gunlock (void *v) { nsync_mu_unlock ((nsync_mu *) v); }
static void *native (void *a) { nsync_mu_lock (&mu); queued++; while (!flag) nsync_cv_wait (&cv, &mu); nsync_mu_unlock (&mu); return a; }
static void *generic (void *a) { nsync_mu_lock (&mu); queued++; while (!flag) nsync_cv_wait_with_deadline_generic (&cv, &mu, &glock, &gunlock, nsync_time_no_deadline, NULL); nsync_mu_unlock (&mu); return a; }
static void *locker (void *a) { nsync_mu_lock (&mu); got = 1; nsync_mu_unlock (&mu); return a; }
int main (void) {
	pthread_t t1, t2, t3; int i;
	pthread_create (&t1, NULL, native, NULL);
	for (;;) { nsync_mu_lock (&mu); i = queued; nsync_mu_unlock (&mu); if (i == 1) break; usleep (1000); }
	pthread_create (&t2, NULL, generic, NULL);
	for (;;) { nsync_mu_lock (&mu); i = queued; nsync_mu_unlock (&mu); if (i == 2) break; usleep (1000); }
	usleep (100000);
	nsync_mu_lock (&mu); flag = 1; nsync_cv_broadcast (&cv); nsync_mu_unlock (&mu);
	pthread_join (t1, NULL); pthread_join (t2, NULL);
	printf ("both waiters returned; mutex word is now 0x%x (free mutex should be 0)\n", (unsigned) *(volatile unsigned *) &mu.word);
	nsync_mu_lock (&mu);
	pthread_create (&t3, NULL, locker, NULL);
	usleep (300000);          /* the locker queues on the held mutex */
	nsync_mu_unlock (&mu);
	for (i = 0; i < 50 && !got; i++) usleep (100000);
	if (!got) { printf ("FAIL: a thread in nsync_mu_lock is still asleep 5 s after the mutex became free (word 0x%x)\n", (unsigned) *(volatile unsigned *) &mu.word); return 1; }
	pthread_join (t3, NULL);
	printf ("PASS\n");
	return 0;
}
