#!/bin/bash
# build.sh <config> [repo]  -- build /verif/build/<config>/nsmc from the CURRENT working tree of the
# repository (default /repo, or $VERIF_REPO).  Configurations (DESIGN.md 2.1):
#   c-futex    C, gcc_new atomics, real nsync_semaphore_futex.c on the modelled futex
#   c-binsem   C, gcc_new atomics, built-in binary semaphore
#   c11-futex  C, C11 <stdatomic.h> atomics (platform/c11), futex
#   cpp-futex  C++11 exactly as the nsync_cpp target, futex
# Extra -D flags for the code under test may be given in $VERIF_CUT_DEFS (e.g. the C14 threshold).
set -e
cfg=${1:?config}; R=${2:-${VERIF_REPO:-/repo}}
V=$(cd "$(dirname "$0")" && pwd)
tag=${VERIF_BUILD_TAG:-$cfg}
B=$V/build/$tag
mkdir -p "$B/obj" "$V/build/rt"

# ---- runtime (not instrumented) ----
for f in rt binsem; do
  if [ ! -f "$V/build/rt/$f.o" ] || [ "$V/engine/$f.c" -nt "$V/build/rt/$f.o" ] || [ "$V/engine/mc.h" -nt "$V/build/rt/$f.o" ]; then
    gcc -O2 -g -Wall -I"$V/engine" -c "$V/engine/$f.c" -o "$V/build/rt/$f.o"
  fi
done
if [ ! -f "$V/build/rt/shim_cpp.o" ] || [ "$V/engine/shim_cpp.cc" -nt "$V/build/rt/shim_cpp.o" ]; then
  g++ -O2 -g -std=c++11 -I"$V/engine" -c "$V/engine/shim_cpp.cc" -o "$V/build/rt/shim_cpp.o"
fi

COMMON_INC="-I$R/platform/gcc_no_tls -I$R/platform/linux -I$R/platform/gcc -I$R/platform/posix -I$R/platform/x86_64 -I$R/public -I$R/internal"
# libc entry points the code under test uses are redirected to the runtime AFTER compilation, by
# renaming the undefined symbols of the instrumented objects (works for C and C++ alike; the
# runtime itself keeps the real libc).
REN="--redefine-sym syscall=mc_syscall --redefine-sym malloc=mc_malloc --redefine-sym free=mc_free --redefine-sym clock_gettime=mc_clock_gettime --redefine-sym nanosleep=mc_nanosleep --redefine-sym memset=mc_memset --redefine-sym memcpy=mc_memcpy --redefine-sym memmove=mc_memmove"
FLAGS="-O1 -g -fsanitize=thread -fno-common -fno-pie -fno-builtin-memset -fno-builtin-memcpy -fno-builtin-memmove -fno-builtin-malloc -fno-builtin-free -DNSYNC_VERIF $VERIF_CUT_DEFS"
CUT="common counter cv debug dll mu mu_wait note once sem_wait time_internal wait"
SEM=1; CC="gcc"; LD="gcc"; EXT=c; TIMEREP="$R/platform/posix/src/time_rep.c"; EXTRA=""
case $cfg in
  c-futex)   INC="$COMMON_INC" ;;
  c-binsem)  INC="$COMMON_INC"; SEM=0 ;;
  c11-futex) INC="-I$R/platform/c11 $COMMON_INC"; FLAGS="$FLAGS -std=gnu11 -DNSYNC_ATOMIC_C11" ;;
  cpp-futex) INC="-I$R/platform/c++11.futex -I$R/platform/c++11 $COMMON_INC"
             FLAGS="$FLAGS -x c++ -std=c++11 -DNSYNC_USE_CPP11_TIMEPOINT -DNSYNC_ATOMIC_CPP11 -fno-exceptions"
             CC="g++"; LD="g++"; TIMEREP="$R/platform/c++11/src/time_rep_timespec.cc"; EXTRA="$V/build/rt/shim_cpp.o" ;;
  *) echo "unknown config $cfg" >&2; exit 2 ;;
esac

MCSTATE="--set-section-flags .bss=alloc,load,contents,data --rename-section .bss=mcstate --rename-section .data=mcstate --rename-section .data.rel.local=mcstate --rename-section .data.rel=mcstate"

compile() { # src obj extra-objcopy-args...
  local src=$1 obj=$2; shift 2
  $CC $FLAGS $INC -I"$V/engine" -I"$V/harness" -c "$src" -o "$obj.tmp.o"
  objcopy $MCSTATE $REN "$@" "$obj.tmp.o" "$obj"
  rm -f "$obj.tmp.o"
}
export -f compile 2>/dev/null || true

pids=()
OBJS=""
for b in $CUT; do
  compile "$R/internal/$b.c" "$B/obj/$b.o" --rename-section .text=t_$b & pids+=($!)
  OBJS="$OBJS $B/obj/$b.o"
done
compile "$TIMEREP" "$B/obj/time_rep.o" --rename-section .text=t_time_rep & pids+=($!); OBJS="$OBJS $B/obj/time_rep.o"
if [ $SEM = 1 ]; then
  compile "$R/platform/linux/src/nsync_semaphore_futex.c" "$B/obj/sem_futex.o" --rename-section .text=t_sem & pids+=($!); OBJS="$OBJS $B/obj/sem_futex.o"
else
  EXTRA="$EXTRA $V/build/rt/binsem.o"
fi
for h in "$V"/harness/*.c; do
  b=$(basename "$h" .c)
  compile "$h" "$B/obj/h_$b.o" --rename-section .text=t_harness & pids+=($!); OBJS="$OBJS $B/obj/h_$b.o"
done
fail=0
for p in "${pids[@]}"; do wait "$p" || fail=1; done
[ $fail = 0 ] || { echo "build.sh: compilation failed" >&2; exit 2; }

# every writable allocated section of an instrumented object must be inside mcstate
for o in $OBJS; do
  bad=$(readelf -SW "$o" | awk '/\] /{ sub(/^.*\] /,""); name=$1; flags=$7; size=strtonum("0x"$5); if (flags ~ /W/ && flags ~ /A/ && size>0 && name!="mcstate" && name !~ /^\.(init_array|fini_array|tm_clone|data\.rel\.ro)/) print name }')
  if [ -n "$bad" ]; then echo "build.sh: $o has writable state outside mcstate: $bad" >&2; exit 2; fi
done

# the instrumented objects must not reach libc's allocator, clock or system-call entry directly
for o in $OBJS; do
  if nm "$o" | grep -qE ' U (malloc|free|calloc|realloc|syscall|clock_gettime|nanosleep|memset|memcpy|memmove|pthread_[a-z_]+|sem_[a-z]+)$'; then echo "build.sh: $o references an unredirected libc entry point" >&2; nm "$o" | grep ' U ' >&2; exit 2; fi
done
$LD -no-pie -o "$B/nsmc" "$V/build/rt/rt.o" $EXTRA $OBJS
# nothing of the real TSan runtime, and no unrenamed libc entry point, may have been pulled in
if nm "$B/nsmc" | grep -q ' __tsan_go_\| T __sanitizer_'; then echo "build.sh: libtsan got linked" >&2; exit 2; fi
echo "$B/nsmc"
