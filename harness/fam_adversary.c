/* Family "adversary" (C14 at the REAL LONG_WAIT_THRESHOLD, no hook needed).  The zero-deviation
   schedule of each program is an adversarial strategy scripted with mc_handoff: in every window
   between the victim's wake-up and its next attempt, a thread that has not itself waited takes the
   mutex.  Program "<v><b>:<strategy>":
       v   w = victim calls nsync_mu_lock        r = victim calls nsync_mu_rlock
       b   L = bargers use nsync_mu_lock         R = bargers use nsync_mu_rlock     T = nsync_mu_trylock
       strategy   fixed = one barger re-acquires every time        alt = two bargers alternate
                  fresh = the barging thread exits and a new thread arrives for every round
                  late  = (victim w, bargers L only) two readers are woken together with the victim queued
                          behind them; one of them is slow to run: it makes its attempt only after the
                          victim has escalated (set the long-wait bit) and queues ahead of it, is woken
                          alone by the next unlock and must then take the free mutex and pass it on
   The bargers make LONG_WAIT_THRESHOLD + 6 attempts.  Deviations from the strategy (P, E budgets) are
   explored like any other schedule.
   Oracle: as in the starve family (no call that never slept acquires once the victim's
   (threshold+1)-th sleep has begun), and since every barging call is fresh the victim sleeps at most
   threshold+1 times in the scripted schedule.  */
#include "hcommon.h"

static nsync_mu mu;
static int vreader, bkind, nbarg, strat;
static volatile int started;
static volatile int turn[64];
static int victim_in_call, victim_sleeps_final = -1, fresh_after_escalation;
#define ROUNDS (LONG_WAIT_THRESHOLD + 6)
#define VICTIM 0

static int ad_setup (const char *program) {
	if (strlen (program) < 4 || program[2] != ':') return -1;
	if (program[0] != 'w' && program[0] != 'r') return -1;
	if (!strchr ("LRT", program[1])) return -1;
	vreader = program[0] == 'r'; bkind = program[1];
	if (vreader && bkind == 'R') return -1;
	if (!strcmp (program + 3, "fixed")) { strat = 0; nbarg = 1; }
	else if (!strcmp (program + 3, "alt")) { strat = 1; nbarg = 2; }
	else if (!strcmp (program + 3, "fresh")) { strat = 2; nbarg = 1; }
	else if (!strcmp (program + 3, "late")) { if (vreader || bkind != 'L') return -1; strat = 3; nbarg = 3; }
	else return -1;
	if (ROUNDS >= 64) return -1;
	h_parse ("x");
	return 1 + nbarg;
}
MC_ORACLE static void acquired (void *m, int acq, int writer) {
	int me = mc_self ();
	(void) writer;
	if (m != (void *) &mu || !acq) return;
	if (me == VICTIM) { victim_in_call = 0; return; }
	if (victim_in_call && ((int) mc_sleeps_of (VICTIM) >= LONG_WAIT_THRESHOLD + 1 || (int) h_call_dequeues (VICTIM) >= LONG_WAIT_THRESHOLD + 1) && !h_call_has_waited (me)) {
		fresh_after_escalation++;
		mc_fail ("starvation avoidance broken at the real threshold: T%d acquired with a call that never waited although the victim has been sent back to sleep %u times (threshold %d)", me, mc_sleeps_of (VICTIM), LONG_WAIT_THRESHOLD);
	}
}
static void ad_init (void) { nsync_mu_init (&mu); mc_name (&mu, sizeof mu, "mu"); mc_rwlock_listener = &acquired; }
MC_ORACLE static void victim_begin (void) { victim_in_call = 1; }
MC_ORACLE static void victim_end (unsigned s) { victim_sleeps_final = (int) s; }
static volatile int go_r2, go_a, go_late;
/* strategy "late": T0 victim writer, T1 holder / barger, T2 reader that runs promptly, T3 reader that is slow */
static void late_thread (int me) {
	int r;
	if (me == VICTIM) {
		unsigned s;
		mc_await (&go_a);
		mc_blocks_reset (); h_call_begin ();
		victim_begin ();
		nsync_mu_lock (&mu);
		s = mc_sleeps_of (VICTIM);
		(void) mc_blocks ();
		victim_end (s);
		nsync_mu_unlock (&mu);
	} else if (me == 1) {
		nsync_mu_lock (&mu);
		mc_flag_set (&started, 1);
		mc_handoff (2);                       /* the prompt reader queues */
		mc_flag_set (&go_r2, 1); mc_handoff (3);   /* the slow reader queues */
		mc_flag_set (&go_a, 1); mc_handoff (VICTIM);   /* the victim queues behind both */
		nsync_mu_unlock (&mu);                /* wakes both readers */
		mc_handoff (2);                       /* the prompt one takes the mutex, releases it (waking the victim) and hands back */
		for (r = 0; r < LONG_WAIT_THRESHOLD + 1; r++) {
			mc_blocks_reset (); h_call_begin ();
			nsync_mu_lock (&mu);          /* a fresh call gets in ahead of the woken victim ... */
			(void) mc_blocks ();
			mc_handoff (VICTIM);          /* ... which fails, and after LONG_WAIT_THRESHOLD failures escalates */
			if (r == LONG_WAIT_THRESHOLD - 1) { mc_flag_set (&go_late, 1); mc_handoff (3); }   /* only now does the slow reader make its attempt */
			nsync_mu_unlock (&mu);
		}
	} else if (me == 2) {
		mc_await (&started);
		mc_blocks_reset (); h_call_begin ();  /* these calls do wait: the oracle must see that */
		nsync_mu_rlock (&mu);
		(void) mc_blocks ();
		nsync_mu_runlock (&mu);
		mc_handoff (1);
	} else {
		mc_await (&go_r2);
		mc_blocks_reset (); h_call_begin ();
		nsync_mu_rlock (&mu);                 /* woken early, scheduled late */
		(void) mc_blocks ();
		nsync_mu_runlock (&mu);
	}
}
static void ad_thread (int me) {
	int r;
	if (strat == 3) { late_thread (me); return; }
	if (me == VICTIM) {
		unsigned s;
		mc_await (&started);
		mc_blocks_reset (); h_call_begin ();
		victim_begin ();
		if (vreader) nsync_mu_rlock (&mu); else nsync_mu_lock (&mu);
		s = mc_sleeps_of (VICTIM);
		(void) mc_blocks ();
		victim_end (s);
		if (vreader) nsync_mu_runlock (&mu); else nsync_mu_unlock (&mu);
		return;
	}
	for (r = me - 1; r < ROUNDS; r += nbarg) {
		int got = 1, next = 1 + (r + 1) % nbarg;
		if (r > 0) mc_await (&turn[r]);
		if (strat == 2 && r > 0) mc_thread_recycle ();
		mc_blocks_reset (); h_call_begin ();
		if (bkind == 'L') nsync_mu_lock (&mu); else if (bkind == 'R') nsync_mu_rlock (&mu); else got = nsync_mu_trylock (&mu);
		(void) mc_blocks ();
		if (r == 0) mc_flag_set (&started, 1);
		mc_handoff (VICTIM);            /* the victim, if awake, makes its attempt now, fails and sleeps again */
		mc_flag_set (&turn[r + 1], 1);
		if (got) { if (bkind == 'R') nsync_mu_runlock (&mu); else nsync_mu_unlock (&mu); }
		mc_handoff (next);              /* the next fresh caller gets in before the woken victim runs */
	}
}
MC_ORACLE static void ad_final (void) {
	mc_outcome ("victim_sleeps=%d", victim_sleeps_final);
}
extern const struct mc_family fam_adversary;
const struct mc_family fam_adversary = { "adversary", ad_setup, ad_init, ad_thread, NULL, ad_final };
