/* Family "refcnt" (C13, mutex half): the reference-count pattern on a heap object that
   contains the mutex.  Every thread owns one reference and ends with a drop:
     D   lock; last = (--refs == 0); nsync_mu_unlock; if (last) free (obj)
     Du  same, released with nsync_mu_unlock_without_wakeup
     Dm  lock; nsync_mu_wait_with_deadline (a condition that stays false, deadline D1) -- which times
         out and returns with the lock held --; last = (--refs == 0); nsync_mu_unlock; if (last) free
     M   (not last) lock; the same timed-out conditional wait; unlock
   before which it may use the object while still holding its reference:
     L   lock; write section; unlock          R   rlock; read section; runlock
     T   trylock [section; unlock]
   Oracle: the runtime's liveness monitor -- any access (plain, atomic, futex) to the freed block
   is a violation.  The free poisons the block and the arena never reuses it. */
#include "hcommon.h"

struct obj { int pad[12]; nsync_mu mu; int refs; int datum; };
static struct obj *ob;
static int nthreads_;

static int rc_setup (const char *program) {
	int t, k, n = h_parse (program);
	if (n < 2) return -1;
	for (t = 0; t < n; t++) {
		if (h_nops[t] < 1) return -1;
		for (k = 0; k < h_nops[t]; k++) {
			const char *o = h_op[t][k];
			int last = (k == h_nops[t] - 1);
			if (last) { if (strcmp (o, "D") && strcmp (o, "Du") && strcmp (o, "Dm")) return -1; }
			else if (strcmp (o, "L") && strcmp (o, "R") && strcmp (o, "T") && strcmp (o, "M")) return -1;
		}
	}
	nthreads_ = n;
	return n;
}
static void rc_init (void) {
	ob = (struct obj *) mc_malloc (sizeof *ob);
	memset (ob, 0, sizeof *ob);
	nsync_mu_init (&ob->mu);
	ob->refs = nthreads_;
	h_install_rwlock_listener ();
}
static int never (const void *v) { (void) v; return 0; }
static void rc_thread (int me) {
	int k;
	for (k = 0; k < h_nops[me]; k++) {
		const char *o = h_op[me][k];
		struct obj *p = ob;
		if (o[0] == 'D') {
			int last;
			nsync_mu_lock (&p->mu); h_enter (&p->mu, 1, "nsync_mu_lock");
			if (o[1] == 'm') {
				int r;
				h_leave (&p->mu, 1);
				r = nsync_mu_wait_with_deadline (&p->mu, &never, NULL, NULL, h_time (H_D1), NULL);
				h_enter (&p->mu, 1, "return from nsync_mu_wait_with_deadline");
				mc_assert (r == ETIMEDOUT, "conditional wait on a false condition returned %d", r);
			}
			p->refs = p->refs - 1;
			last = (p->refs == 0);
			mc_point ();
			h_leave (&p->mu, 1);
			if (o[1] == 'u') nsync_mu_unlock_without_wakeup (&p->mu); else nsync_mu_unlock (&p->mu);
			if (last) mc_free (p);
			h_res[me][k] = last;
		} else if (o[0] == 'L') {
			nsync_mu_lock (&p->mu); h_enter (&p->mu, 1, "nsync_mu_lock"); mc_point (); p->datum++; h_leave (&p->mu, 1); nsync_mu_unlock (&p->mu);
		} else if (o[0] == 'M') {
			int r;
			nsync_mu_lock (&p->mu);
			r = nsync_mu_wait_with_deadline (&p->mu, &never, NULL, NULL, h_time (H_D1), NULL);
			mc_assert (r == ETIMEDOUT, "conditional wait on a false condition returned %d", r);
			h_enter (&p->mu, 1, "return from nsync_mu_wait_with_deadline"); p->datum++; h_leave (&p->mu, 1);
			nsync_mu_unlock (&p->mu);
		} else if (o[0] == 'R') {
			nsync_mu_rlock (&p->mu); h_enter (&p->mu, 0, "nsync_mu_rlock"); mc_point (); (void) p->datum; h_leave (&p->mu, 0); nsync_mu_runlock (&p->mu);
		} else {
			if (nsync_mu_trylock (&p->mu)) { h_enter (&p->mu, 1, "nsync_mu_trylock"); p->datum++; h_leave (&p->mu, 1); nsync_mu_unlock (&p->mu); }
		}
	}
}
MC_ORACLE static void rc_final (void) { h_outcome_results (); }
extern const struct mc_family fam_refcnt;
const struct mc_family fam_refcnt = { "refcnt", rc_setup, rc_init, rc_thread, NULL, rc_final };
