/* Family "counter" (C10).  Program "<init>:<thread>|<thread>..." with operations
     +   nsync_counter_add (c, +1)      (anywhere; every WAIT of the program starts only after all
                                         '+' are done, because nsync forbids raising the counter
                                         from zero once a wait has been called -- raising it from
                                         zero before that, e.g. between another thread's zeroing
                                         decrement and the first wait, is legal and is generated)
     -   nsync_counter_add (c, -1)
     v   nsync_counter_value (c)
     w   nsync_counter_wait (c, no deadline)    wd  deadline D1    wp  deadline in the past
     n   the wait through nsync_wait_n on {counter} with deadline D1
   Legal programs never drive the value below zero, and reach zero if an untimed wait is present.
   Oracles: brute-force linearizability of the call/return history against an integer (add returns
   the new value, value the current one, wait returns 0 only at a point where the integer is 0 and
   v != 0 only if v is the integer at its point and its deadline has passed at return); progress;
   a wait invoked after some call already observed zero does not block. */
#include "hcommon.h"

static nsync_counter c;
static int init_value, nplus, plus_done_count;
static volatile int plus_done;
struct call { int kind; /* '+','-','v','w' */ int ret; int inv, res; int64_t dl; int done; int after_plus; };
#define MAXCALLS 16
static struct call calls[MAXCALLS]; static int ncalls, stamp;
static int zero_seen;
static int cdata[H_MAXT];        /* plain client data written by a thread right before its decrements */
static int decrementer[H_MAXT];

static int ctr_setup (const char *program) {
	int t, k, n, minus = 0, plus = 0, untimed = 0, worst;
	const char *colon = strchr (program, ':');
	if (!colon) return -1;
	init_value = atoi (program);
	n = h_parse (colon + 1);
	if (n < 1) return -1;
	worst = init_value;
	for (t = 0; t < n; t++) { int bal = 0, minbal = 0; for (k = 0; k < h_nops[t]; k++) {
		const char *o = h_op[t][k];
		if (!strcmp (o, "+")) { plus++; bal++; }
		else if (!strcmp (o, "-")) { minus++; bal--; if (bal < minbal) minbal = bal; }
		else if (!strcmp (o, "w")) untimed++;
		else if (strcmp (o, "v") && strcmp (o, "wd") && strcmp (o, "wp") && strcmp (o, "n")) return -1;
	} worst += minbal; }
	/* in no interleaving may the value be driven below zero */
	if (worst < 0) return -1;
	if (minus > init_value + plus) return -1;
	if (untimed && minus != init_value + plus) return -1;
	if (init_value + plus == 0) return -1;
	nplus = plus;
	for (t = 0; t < n; t++) { decrementer[t] = 0; for (k = 0; k < h_nops[t]; k++) if (!strcmp (h_op[t][k], "-")) decrementer[t] = 1; }
	return n;
}
static void ctr_init (void) { c = nsync_counter_new (init_value); if (nplus == 0) plus_done = 1; h_install_rwlock_listener (); }
MC_ORACLE static int begin_call (int kind, int64_t dl) {
	int i = ncalls++;
	if (i >= MAXCALLS) { mc_fail ("harness: too many calls"); return 0; }
	calls[i].kind = kind; calls[i].inv = ++stamp; calls[i].dl = dl; calls[i].done = 0; calls[i].after_plus = plus_done;
	return i;
}
MC_ORACLE static void end_call (int i, int ret, int was_zero_seen, unsigned blocks) {
	calls[i].ret = ret; calls[i].res = ++stamp; calls[i].done = 1;
	if (calls[i].kind == 'w') {
		if (ret != 0 && calls[i].dl == MC_NEVER) mc_fail ("nsync_counter_wait without deadline returned %d", ret);
		if (ret != 0 && mc_now_ns () < calls[i].dl) mc_fail ("nsync_counter_wait returned non-zero (%d) before its deadline", ret);
		if (was_zero_seen && blocks != 0) mc_fail ("a wait that started after the counter was seen at zero blocked (%u times)", blocks);
	}
	/* zero is final only once no '+' can follow: the call that reports it must have been invoked after the
	   last '+' returned (a decrement that took the counter to zero before a '+' and returns after it has
	   not seen the final zero) */
	if (ret == 0 && calls[i].after_plus) zero_seen = 1;
}
MC_ORACLE static int plus_finished (void) { return ++plus_done_count == nplus; }
MC_ORACLE static int zs (void) { return zero_seen; }

static void ctr_thread (int me) {
	int k, awaited = 0;
	for (k = 0; k < h_nops[me]; k++) {
		const char *o = h_op[me][k];
		int i, r = 0, z; unsigned b = 0;
		if ((o[0] == 'w' || o[0] == 'n') && !awaited) { mc_await (&plus_done); awaited = 1; }
		switch (o[0]) {
		case '+': i = begin_call ('+', 0); r = (int) nsync_counter_add (c, 1); end_call (i, r, 0, 0); if (plus_finished ()) mc_flag_set (&plus_done, 1); break;
		case '-': cdata[me] = 1; i = begin_call ('-', 0); r = (int) nsync_counter_add (c, -1); end_call (i, r, 0, 0); break;
		case 'v': i = begin_call ('v', 0); r = (int) nsync_counter_value (c); end_call (i, r, 0, 0); break;
		case 'w': {
			int64_t dl = o[1] == 'd' ? H_D1 : o[1] == 'p' ? H_PAST : MC_NEVER;
			z = zs ();
			i = begin_call ('w', dl);
			mc_blocks_reset ();
			r = (int) nsync_counter_wait (c, h_time (dl));
			b = mc_blocks ();
			end_call (i, r, z, b);
			/* C03: the decrement that zeroes the counter happens before its waiters' return.  Waits start
			   only after every '+' is done, so a wait that returns 0 saw the final zero: every decrement
			   (the zeroing one included) precedes it and what those threads wrote before must be visible. */
			if (r == 0) { int t; for (t = 0; t < h_nthreads; t++) if (decrementer[t]) mc_assert (cdata[t] == 1, "data written before the decrements is not visible after nsync_counter_wait returned 0"); }
			break; }
		case 'n': {
			struct nsync_waitable_s w; struct nsync_waitable_s *pw = &w; int x;
			w.v = c; w.funcs = &nsync_counter_waitable_funcs;
			z = zs ();
			i = begin_call ('w', H_D1);
			mc_blocks_reset ();
			x = nsync_wait_n (NULL, NULL, NULL, h_time (H_D1), 1, &pw);
			b = mc_blocks ();
			r = (x == 0) ? 0 : (int) nsync_counter_value (c);
			if (x != 0 && r == 0) r = -1;   /* timed out; the value read afterwards happened to be 0: not a claim about the wait */
			if (r == -1) { calls[i].kind = 'x'; r = 1; }
			end_call (i, r, z, b);
			break; }
		}
		h_res[me][k] = r;
	}
}
/* brute-force linearizability: place the calls one at a time */
MC_ORACLE static int lin (unsigned done_mask, int value) {
	int i, j;
	if (done_mask == (1u << ncalls) - 1) return 1;
	for (i = 0; i < ncalls; i++) if (!(done_mask & (1u << i))) {
		int ok = 1, nv = value;
		/* real-time order: every call that returned before i was invoked must already be placed */
		for (j = 0; j < ncalls; j++) if (j != i && !(done_mask & (1u << j)) && calls[j].res < calls[i].inv) ok = 0;
		if (!ok) continue;
		switch (calls[i].kind) {
		case '+': nv = value + 1; ok = (calls[i].ret == nv); break;
		case '-': nv = value - 1; ok = (calls[i].ret == nv); break;
		case 'v': ok = (calls[i].ret == value); break;
		case 'w': ok = (calls[i].ret == value); break;   /* 0 only where the integer is 0; v only where it is v */
		case 'x': ok = 1; break;
		}
		if (ok && lin (done_mask | (1u << i), nv)) return 1;
	}
	return 0;
}
MC_ORACLE static void ctr_final (void) {
	int i;
	for (i = 0; i < ncalls; i++) if (!calls[i].done) { mc_fail ("harness: unfinished call in a completed execution"); return; }
	if (!lin (0, init_value)) {
		char b[200]; int n = 0;
		for (i = 0; i < ncalls && n < 180; i++) n += snprintf (b + n, sizeof b - n, " %c->%d[%d,%d]", calls[i].kind, calls[i].ret, calls[i].inv, calls[i].res);
		mc_fail ("counter history is not linearizable against an integer starting at %d:%s", init_value, b);
	}
	h_outcome_results ();
}
extern const struct mc_family fam_counter;
const struct mc_family fam_counter = { "counter", ctr_setup, ctr_init, ctr_thread, NULL, ctr_final };
