/* Family "muwait": conditional critical sections (nsync_mu_wait*) on one mutex
   protecting two variables a and b.

   Waiter operations  M<mode><cond>[<deadline>][<note>]
     mode   w writer   r reader
     cond   1 = (nonzero, &ref_a, eq)      2 = (nonzero, &ref_b, eq)
            3 = (nonzero, &ref_a2, eq)     ref_a2 is a different object that eq() declares equal to ref_a
            4 = (nonzero_too, &ref_a, eq)  a different function with the same meaning
            5 = (nonzero, &ref_a, NULL)    no eq function
            6 = (b_nonzero, &ref_a, eq)    a different function that tests b, with an argument that eq()
                                           declares equal to condition 1's: must NOT be treated as the same
                                           condition
     deadline d = D1, p = past;  note N = fresh (notified by an 'N' op), x = already notified
   Other operations
     (a trailing 'z' makes the waiter end its own section with nsync_mu_unlock_without_wakeup)
     A / B   lock; a=1 (b=1); nsync_mu_unlock
     a0 / b0 lock; a=0 (b=0); nsync_mu_unlock     (a condition made true may be made false again before the
             woken waiter has run: the waiter then legitimately keeps waiting, the others must not be forgotten)
     Z / z   lock; nothing; unlock / unlock_without_wakeup
             (Sections that change a or b always end with nsync_mu_unlock: nsync documents
             nsync_mu_unlock_without_wakeup as usable "only at the end of critical sections [that]
             cannot make the condition true for any of those waits" (internal/mu_wait.c:291-299),
             so a section that sets a condition and ends without wake-up is an illegal client
             program, and the generator never emits one.)
     R       rlock; read section; runlock
     R@k     rlock; wait (client level) until k waiters have announced themselves; read section; runlock -- a reader
             that is still inside while a READER-mode waiter starts to wait (legal only if every waiter of the
             program is reader-mode: a writer could not announce itself while this reader holds the mutex)
     V       cv waiter on the same mutex: lock; while (!cvflag) nsync_cv_wait; unlock
     S       lock; cvflag=1; nsync_cv_signal; unlock   (the cv waiter is transferred to the mutex queue)
     F       lock; cvflag=1; unlock                    (sets the cv waiters' flag without waking)
     Sr / Br rlock; nsync_cv_signal / broadcast; runlock   (a wake-up issued inside a READER section: the
             transferred waiter sits on the mutex queue while only readers hold the mutex)
     G       nsync_cv_signal with no lock held (after an F)
     N       notify the fresh note
     @k      wait until k waiters have announced themselves

   Oracles
     C06  at quiescence a waiter still asleep whose condition is true is a violation iff the
          write section that made it true ended with nsync_mu_unlock, or a later write section
          (ended by either kind of unlock) began when it was already true.  Every condition
          evaluation happens with the mutex word showing it held and no other thread inside a
          write section.
     C05  return value 0 exactly when the condition is true at return; ETIMEDOUT only at/after the
          deadline; ECANCELED only with the note notified; lock mode preserved; no waiter whose
          deadline passed / note is notified is asleep at quiescence.
     C01  shadow occupancy at every entry.  */
#include "hcommon.h"

static nsync_mu mu;
static nsync_cv cv;
static int val[2];            /* a, b */
static int cvflag;
static int datum;
static nsync_note note_fresh, note_done;

struct cref { int *p; };
static struct cref ref_a, ref_a2, ref_b;

#define SLOTS (H_MAXT * H_MAXOPS)
struct wrec { int state; int var; int reader; int timed; int64_t dl; nsync_note note; int res; };
static struct wrec wr[SLOTS];
static int announced;
static volatile int announced_ge[SLOTS + 1];
static int began_true[MC_MAXF][2], set_here[MC_MAXF][2], oblig[2];
/* cv waiters ('V') and the wake-ups issued to them: same accounting as in the cv family */
static int v_state[MC_MAXF], v_seq[MC_MAXF], v_returns;
struct vwake { int bcast; unsigned q; int seq[MC_MAXF]; int issued; };
static struct vwake vw[SLOTS]; static int nvw;
static int cond_evals;

MC_ORACLE static void cond_check (void) {
	uint32_t w = *(volatile uint32_t *) &mu.word;
	cond_evals++;
	if ((w & MU_ANY_LOCK) == 0) mc_fail ("a wait condition was evaluated while the mutex is not held (word 0x%x)", w);
	if (h_writer_inside (&mu) && h_held_by_me (&mu) != 2) mc_fail ("a wait condition was evaluated by T%d while another thread is inside a write critical section", mc_self ());
}
static int nonzero (const void *v) { cond_check (); return *((const struct cref *) v)->p != 0; }
static int nonzero_too (const void *v) { cond_check (); return *((const struct cref *) v)->p != 0; }
static int b_nonzero (const void *v) { (void) v; cond_check (); return val[1] != 0; }
static int ref_eq (const void *x, const void *y) { return ((const struct cref *) x)->p == ((const struct cref *) y)->p; }

static int is_waiter (const char *o) { return o[0] == 'M' && (o[1] == 'w' || o[1] == 'r') && o[2] >= '1' && o[2] <= '6'; }
static int mw_setup (const char *program) {
	int t, k, n = h_parse (program), fresh = 0, notifier = 0, held_until = 0;
	if (n < 1) return -1;
	for (t = 0; t < n; t++) for (k = 0; k < h_nops[t]; k++) {
		const char *o = h_op[t][k];
		if (is_waiter (o)) {
			const char *p = o + 3;
			if (*p == 'd' || *p == 'p') p++;
			if (*p == 'N') { fresh = 1; p++; } else if (*p == 'x') p++;
			if (*p == 'z') p++;
			if (*p) return -1;
		} else if (!strcmp (o, "Sr") || !strcmp (o, "Br") || !strcmp (o, "a0") || !strcmp (o, "b0")) {
		} else if (strlen (o) == 1 && strchr ("ABZzRVSNFG", o[0])) { if (o[0] == 'N') notifier = 1; }
		else if (o[0] == '@' && o[1] >= '1' && o[1] <= '9' && o[2] == 0) ;
		else if (o[0] == 'R' && o[1] == '@' && o[2] >= '1' && o[2] <= '9' && o[3] == 0) { if (o[2] - '0' > held_until) held_until = o[2] - '0'; }
		else return -1;
	}
	if (held_until) {   /* R@k: only reader-mode waiters, and at least k of them */
		int readers = 0;
		for (t = 0; t < n; t++) for (k = 0; k < h_nops[t]; k++) {
			const char *o = h_op[t][k];
			if (is_waiter (o)) { if (o[1] != 'r') return -1; readers++; }
			else if (!strcmp (o, "V")) return -1;
		}
		if (readers < held_until) return -1;
		/* a writer that queues while the R@k reader is still waiting for a reader-mode waiter to arrive would
		   keep that waiter out for ever (writers have priority over new readers): every thread that takes the
		   mutex in write mode must itself wait for the k-th announcement first */
		for (t = 0; t < n; t++) {
			int writes = 0;
			for (k = 0; k < h_nops[t]; k++) { const char *o = h_op[t][k]; if (!is_waiter (o) && o[0] != 'R' && o[0] != '@' && o[0] != 'N' && o[0] != 'G') writes = 1; }
			if (writes && !(h_op[t][0][0] == '@' && h_op[t][0][1] - '0' >= held_until)) return -1;
		}
	}
	if (notifier && !fresh) return -1;
	return n;
}
static void mw_init (void) {
	nsync_mu_init (&mu); nsync_cv_init (&cv);
	mc_name (&mu, sizeof mu, "mu"); mc_name (&cv, sizeof cv, "cv"); mc_name (val, sizeof val, "val");
	ref_a.p = &val[0]; ref_a2.p = &val[0]; ref_b.p = &val[1];
	h_install_rwlock_listener ();
	note_fresh = nsync_note_new (NULL, nsync_time_no_deadline);
	note_done = nsync_note_new (NULL, nsync_time_no_deadline); nsync_note_notify (note_done);
}
MC_ORACLE static int peek_notified (nsync_note n) {
	if (*(volatile uint32_t *) &n->notified != 0) return 1;
	return n->expiry_time_valid && h_ns (n->expiry_time) <= mc_now_ns ();
}
MC_ORACLE static int announce (int slot, int var, int reader, int64_t dl, nsync_note note) {
	struct wrec *w = &wr[slot];
	w->state = 1; w->var = var; w->reader = reader; w->timed = dl != MC_NEVER; w->dl = dl; w->note = note;
	return ++announced;
}
MC_ORACLE static int count_cv_waiter (void) { int me = mc_self (); v_state[me] = 1; v_seq[me]++; return ++announced; }
MC_ORACLE static void cv_waiter_returned (void) { v_state[mc_self ()] = 2; v_returns++; }
MC_ORACLE static int new_vwake (int bcast) {
	int i; unsigned q = 0;
	for (i = 0; i < MC_MAXF; i++) { vw[nvw].seq[i] = v_seq[i]; if (v_state[i] == 1) q |= 1u << i; }
	vw[nvw].bcast = bcast; vw[nvw].q = q; vw[nvw].issued = 0;
	return nvw++;
}
MC_ORACLE static void vwake_issued (int k) { vw[k].issued = 1; }
MC_ORACLE static void returned (int slot, int res) {
	struct wrec *w = &wr[slot];
	int truth = val[w->var] != 0;
	w->state = 2; w->res = res;
	if ((res == 0) != truth) mc_fail ("nsync_mu_wait_with_deadline returned %d but its condition is %s at return", res, truth ? "true" : "false");
	if (res == ETIMEDOUT) {
		if (!w->timed) mc_fail ("wait without deadline returned ETIMEDOUT");
		else if (mc_now_ns () < w->dl) mc_fail ("wait returned ETIMEDOUT %lld ns before its deadline", (long long) (w->dl - mc_now_ns ()));
	} else if (res == ECANCELED) {
		if (w->note == NULL) mc_fail ("wait without note returned ECANCELED");
		else if (!peek_notified (w->note)) mc_fail ("wait returned ECANCELED but its note is not notified");
	} else if (res != 0) mc_fail ("wait returned unexpected value %d", res);
}
/* write-section bookkeeping for the C06 obligation rule */
MC_ORACLE static void sec_begin (void) { int me = mc_self (), v; for (v = 0; v < 2; v++) { began_true[me][v] = val[v] != 0; set_here[me][v] = 0; } }
MC_ORACLE static void sec_set (int v) { set_here[mc_self ()][v] = 1; }
/* the condition is false again: whatever obligation its earlier truth created is void, and sections that began
   while it was true no longer count */
MC_ORACLE static void sec_clear (int v) { int t; oblig[v] = 0; for (t = 0; t < MC_MAXF; t++) { began_true[t][v] = 0; set_here[t][v] = 0; } }
MC_ORACLE static void sec_end (int with_wakeup) {
	int me = mc_self (), v;
	for (v = 0; v < 2; v++) {
		if (began_true[me][v]) oblig[v] = 1;
		if (set_here[me][v] && with_wakeup) oblig[v] = 1;
	}
}
static void wlock (void) { nsync_mu_lock (&mu); h_enter (&mu, 1, "nsync_mu_lock"); sec_begin (); }
static void wunlock (int with_wakeup) {
	sec_end (with_wakeup); h_leave (&mu, 1);
	if (with_wakeup) nsync_mu_unlock (&mu); else nsync_mu_unlock_without_wakeup (&mu);
}
static void write_section (void) { int v; mc_point (); v = datum; datum = v + 1; }
static void read_section (void) { int v1 = datum, v2; mc_point (); v2 = datum; mc_assert (v1 == v2, "reader saw the datum change inside its read section"); }

static int do_wait (int slot, const char *o) {
	int reader = (o[1] == 'r'), c = o[2] - '0', var = (c == 2 || c == 6) ? 1 : 0, r, n;
	const char *p = o + 3;
	int64_t dl = MC_NEVER; nsync_note note = NULL;
	int (*f) (const void *) = (c == 4) ? &nonzero_too : (c == 6) ? &b_nonzero : &nonzero;
	const void *arg = (c == 2) ? (const void *) &ref_b : (c == 3) ? (const void *) &ref_a2 : (const void *) &ref_a;
	int (*eq) (const void *, const void *) = (c == 5) ? NULL : &ref_eq;
	if (*p == 'd') { dl = H_D1; p++; } else if (*p == 'p') { dl = H_PAST; p++; }
	if (*p == 'N') { note = note_fresh; p++; } else if (*p == 'x') { note = note_done; p++; }
	if (reader) { nsync_mu_rlock (&mu); h_enter (&mu, 0, "nsync_mu_rlock"); }
	else wlock ();
	n = announce (slot, var, reader, dl, note);
	mc_flag_set (&announced_ge[n], 1);
	h_leave (&mu, !reader);        /* blocking in the wait is not an unlock: it creates no obligation ... */
	r = nsync_mu_wait_with_deadline (&mu, f, arg, eq, h_time (dl), note);
	h_enter (&mu, !reader, "return from nsync_mu_wait_with_deadline");
	if (!reader) sec_begin ();     /* ... and a new write section begins on return */
	returned (slot, r);
	mc_assert (nsync_mu_is_reader (&mu) == reader, "nsync_mu_wait_with_deadline changed the mode in which the mutex is held");
	if (reader) { read_section (); h_leave (&mu, 0); nsync_mu_runlock (&mu); }
	else { write_section (); wunlock (*p != 'z'); }
	return r;
}

static void mw_thread (int me) {
	int k;
	for (k = 0; k < h_nops[me]; k++) {
		const char *o = h_op[me][k];
		int r = 0;
		if (is_waiter (o)) r = do_wait (me * H_MAXOPS + k, o);
		else switch (o[0]) {
		case 'A': case 'B': {
			int v = (o[0] == 'B');
			if (o[1] == 'r') {   /* "Br": broadcast inside a reader section */
				int k;
				nsync_mu_rlock (&mu); h_enter (&mu, 0, "nsync_mu_rlock");
				k = new_vwake (1); mc_point (); nsync_cv_broadcast (&cv); vwake_issued (k);
				h_leave (&mu, 0); nsync_mu_runlock (&mu);
				break;
			}
			wlock (); mc_point (); val[v] = 1; sec_set (v); wunlock (1);
			break; }
		case 'a': case 'b': {   /* "a0" / "b0" */
			int v = (o[0] == 'b');
			wlock (); mc_point (); val[v] = 0; sec_clear (v); wunlock (1);
			break; }
		case 'Z': wlock (); write_section (); wunlock (1); break;
		case 'z': wlock (); write_section (); wunlock (0); break;
		case 'R': nsync_mu_rlock (&mu); h_enter (&mu, 0, "nsync_mu_rlock"); if (o[1] == '@') mc_await (&announced_ge[o[2] - '0']); read_section (); h_leave (&mu, 0); nsync_mu_runlock (&mu); break;
		case 'V':
			wlock ();
			while (!cvflag) {
				int n = count_cv_waiter ();
				mc_flag_set (&announced_ge[n], 1);
				h_leave (&mu, 1);
				nsync_cv_wait (&cv, &mu);
				h_enter (&mu, 1, "return from nsync_cv_wait"); sec_begin ();
				cv_waiter_returned ();
			}
			wunlock (1);
			break;
		case 'S':
			if (o[1] == 'r') {
				int k;
				nsync_mu_rlock (&mu); h_enter (&mu, 0, "nsync_mu_rlock");
				k = new_vwake (o[0] == 'B');
				mc_point ();
				if (o[0] == 'B') nsync_cv_broadcast (&cv); else nsync_cv_signal (&cv);
				vwake_issued (k);
				h_leave (&mu, 0); nsync_mu_runlock (&mu);
			} else if (o[0] == 'S') {
				int k;
				wlock (); cvflag = 1; k = new_vwake (0); nsync_cv_signal (&cv); vwake_issued (k); wunlock (1);
			}
			break;
		case 'F': wlock (); cvflag = 1; wunlock (1); break;
		case 'G': { int k = new_vwake (0); nsync_cv_signal (&cv); vwake_issued (k); break; }
		case 'N': nsync_note_notify (note_fresh); break;
		case '@': mc_await (&announced_ge[o[1] - '0']); break;
		}
		h_res[me][k] = r;
	}
}

MC_ORACLE static void cv_accounting (void) {
	unsigned asleep = 0; int i, j, kprime = 0;
	for (i = 0; i < MC_MAXF; i++) if (v_state[i] == 1) asleep |= 1u << i;
	for (i = 0; i < nvw; i++) if (vw[i].issued) {
		for (j = 0; j < MC_MAXF; j++) if (vw[i].seq[j] != v_seq[j]) vw[i].q &= ~(1u << j);
		if (!(vw[i].q & asleep)) continue;
		if (vw[i].bcast) mc_fail ("lost wake-up: nsync_cv_broadcast left asleep a thread that was waiting on the condition variable before it (mask 0x%x)", vw[i].q & asleep);
		else kprime++;
	}
	if (v_returns < kprime) mc_fail ("lost wake-up: %d nsync_cv_signal call(s) were issued while a still-sleeping thread was already waiting, but only %d cv wait(s) returned", kprime, v_returns);
}
MC_ORACLE static void accounting (void) {
	int i;
	cv_accounting ();
	for (i = 0; i < SLOTS; i++) if (wr[i].state == 1) {
		struct wrec *w = &wr[i];
		if (val[w->var] != 0 && oblig[w->var])
			mc_fail ("a thread blocked in nsync_mu_wait stays asleep although its condition (on %c) is true and was made true by a section ended with nsync_mu_unlock, or a later write section began with it already true (thread %d)", "ab"[w->var], i / H_MAXOPS);
		if (w->timed && w->dl <= mc_now_ns ()) mc_fail ("a wait whose deadline has passed is still asleep with nothing left to wake it (thread %d)", i / H_MAXOPS);
		if (w->note != NULL && peek_notified (w->note)) mc_fail ("a wait whose cancel note is notified is still asleep with nothing left to wake it (thread %d)", i / H_MAXOPS);
	}
}
/* At quiescence only threads inside a conditional wait or a cv wait may legitimately be blocked; a thread
   asleep in a plain lock / rlock / unlock has nobody left to wake it (C02) -- the rescue below would hide that. */
MC_ORACLE static void plain_lockers_done (void) {
	int t, k;
	for (t = 0; t < h_nthreads; t++) if (!mc_fiber_done (t)) {
		int waiting = (v_state[t] == 1);
		for (k = 0; k < H_MAXOPS; k++) if (wr[t * H_MAXOPS + k].state == 1) waiting = 1;
		if (!waiting) mc_fail ("T%d is blocked for ever in a lock operation that is not a wait: the mutex is free (or only read-held) and nobody is left to wake it", t);
	}
}
static void mw_observer (void) {
	unsigned left;
	plain_lockers_done ();
	accounting ();
	wlock (); val[0] = 1; val[1] = 1; cvflag = 1; nsync_cv_broadcast (&cv); wunlock (1);
	nsync_note_notify (note_fresh);
	left = mc_quiesce ();
	mc_assert (left == 0, "threads 0x%x still blocked after every condition was made true by a section ended with nsync_mu_unlock", left);
}
MC_ORACLE static void mw_final (void) { h_mu_idle (&mu); h_outcome_results (); mc_outcome (" evals=%d", cond_evals > 0); }
extern const struct mc_family fam_muwait;
const struct mc_family fam_muwait = { "muwait", mw_setup, mw_init, mw_thread, mw_observer, mw_final };
