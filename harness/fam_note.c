/* Family "note" (C08, C09).  Program "<hdr>:<thread>|<thread>...".

   Header: four characters giving the deadline of R (root), C (child of R), G (child of C) and
   S (second child of R):  '-' none, 'p' already past, '1' D1, '2' D2, 'x' note not created
   (its descendants are not created either).

   Operations (X is one of R C G S):
     nX  nsync_note_notify (X)            iX  nsync_note_is_notified (X)
     wX  nsync_note_wait (X, no deadline) wdX / weX  the same with deadline D1 / D2
     eX  check nsync_note_expiry (X) against the minimum deadline on the path to the root
     kX  create a child of X (no deadline), poll it, free it (all by this thread)
     fX  nsync_note_free (X)  -- legal only if no other thread has an operation naming X, and this
         thread none after it; operations on X's relatives by other threads are legal (C09)
     KX  create a child of X (no deadline) and KEEP it;  QX  poll and free the child this thread created with KX;
     aX  wait (client level) until every KX of the program has returned.  Another thread may free X after its
         own aX: the kept child then outlives its parent and is freed later (creation racing with a
         notification of the parent, then free (parent), then free (child)).

   Oracles
     C08  one-way: an observation of X invoked after another observation of X returned "notified"
          returns "notified"; "notified" is only observed if a cause had begun (notify invoked on X
          or an ancestor, or a deadline on the path reached); when nsync_note_notify (X) returns X is
          notified; a wait reports a timeout only at/after its deadline; at quiescence every live
          note with a completed cause is notified (asked through nsync_note_is_notified by the
          observer), every live note without any cause is not, and nobody is asleep on a note with
          a completed cause.
     C09  liveness of every access (runtime monitor: a freed note is a poisoned arena block);
          progress; children of a freed note still hear a later notification of the grandparent. */
#include "hcommon.h"

enum { R_, C_, G_, S_, NN };
static const char letters[] = "RCGS";
static const int parent_of[NN] = { -1, R_, C_, R_ };
static nsync_note note[NN];
static char hdr[NN + 1];
static int64_t dl_of[NN];       /* own deadline */
static int freed[NN], free_begun[NN];
static int notify_invoked[NN], notify_done[NN];
static int seen_notified[NN];   /* some observation returned "notified" (stamp of its return) */
static int stamp;
static int payload[NN];         /* plain client data written right before nsync_note_notify (X) */
static int rescue_begun;
struct wt { int active; int x; int64_t dl; };
static struct wt waiting[MC_MAXF];

static int idx (char c) { const char *p = strchr (letters, c); return (p && c) ? (int) (p - letters) : -1; }
static int exists (int x) { for (; x >= 0; x = parent_of[x]) if (hdr[x] == 'x') return 0; return 1; }
static int64_t hdr_dl (char c) { return c == 'p' ? H_PAST : c == '1' ? H_D1 : c == '2' ? H_D2 : MC_NEVER; }

static int nK[NN];                      /* number of KX operations in the program */
static int K_done[NN]; static volatile int K_all_done[NN];
static nsync_note kept[MC_MAXF][NN];
MC_ORACLE static int K_returned (int x) { return ++K_done[x] == nK[x]; }
static int note_setup (const char *program) {
	int t, k, n, x;
	for (x = 0; x < NN; x++) nK[x] = 0;
	const char *colon = strchr (program, ':');
	if (!colon || colon - program != NN) return -1;
	memcpy (hdr, program, NN); hdr[NN] = 0;
	for (x = 0; x < NN; x++) if (!strchr ("-p12x", hdr[x])) return -1;
	if (hdr[R_] == 'x') return -1;
	n = h_parse (colon + 1);
	if (n < 1) return -1;
	for (t = 0; t < n; t++) for (k = 0; k < h_nops[t]; k++) {
		const char *o = h_op[t][k]; size_t l = strlen (o);
		if (l < 2 || l > 3) return -1;
		x = idx (o[l-1]);
		if (x < 0 || !exists (x)) return -1;
		if (l == 2 && !strchr ("niwekfKQa", o[0])) return -1;
		if (o[0] == 'K') nK[x]++;
		if (o[0] == 'Q') { int k2, made = 0; for (k2 = 0; k2 < k; k2++) if (h_op[t][k2][0] == 'K' && idx (h_op[t][k2][1]) == x) made++; for (k2 = 0; k2 < k; k2++) if (h_op[t][k2][0] == 'Q' && idx (h_op[t][k2][1]) == x) made--; if (made < 1) return -1; }
		if (l == 3 && !(o[0] == 'w' && (o[1] == 'd' || o[1] == 'e'))) return -1;
		if (o[0] == 'f') {
			int t2, k2;
			for (t2 = 0; t2 < n; t2++) for (k2 = 0; k2 < h_nops[t2]; k2++) {
				const char *o2 = h_op[t2][k2];
				if (idx (o2[strlen (o2) - 1]) != x) continue;
				if (t2 != t && (o2[0] == 'K' || o2[0] == 'Q')) {   /* legal if this thread waited for the creations */
					int k3, waited = 0;
					for (k3 = 0; k3 < k; k3++) if (h_op[t][k3][0] == 'a' && idx (h_op[t][k3][1]) == x) waited = 1;
					if (!waited) return -1;
					continue;
				}
				if (t2 != t) return -1;            /* another thread uses the note being freed */
				if (k2 > k) return -1;             /* used after free */
			}
		}
	}
	return n;
}
static void note_init (void) {
	int x;
	for (x = 0; x < NN; x++) {
		note[x] = NULL; dl_of[x] = hdr_dl (hdr[x]);
		if (!exists (x)) continue;
		note[x] = nsync_note_new (parent_of[x] >= 0 ? note[parent_of[x]] : NULL, h_time (dl_of[x]));
		if (dl_of[x] != MC_NEVER) mc_declare_instant (dl_of[x]);
	}
	h_install_rwlock_listener ();
}
MC_ORACLE static int64_t path_deadline (int x) { int64_t m = MC_NEVER; for (; x >= 0; x = parent_of[x]) if (dl_of[x] < m) m = dl_of[x]; return m; }
MC_ORACLE static int cause_begun (int x) { int y; if (path_deadline (x) <= mc_now_ns ()) return 1; for (y = x; y >= 0; y = parent_of[y]) if (notify_invoked[y]) return 1; return 0; }
MC_ORACLE static int cause_done (int x) { int y; if (path_deadline (x) <= mc_now_ns ()) return 1; for (y = x; y >= 0; y = parent_of[y]) if (notify_done[y]) return 1; return 0; }
MC_ORACLE static int peek_notified (nsync_note n) {
	if (*(volatile uint32_t *) &n->notified != 0) return 1;
	return n->expiry_time_valid && h_ns (n->expiry_time) <= mc_now_ns ();
}
/* If the only possible cause of X being notified is one nsync_note_notify call, return the note it was
   called on (its payload must then be visible to whoever observes X notified), else -1. */
MC_ORACLE static int sole_cause (int x) {
	int y, c = -1, k = 0;
	if (rescue_begun || path_deadline (x) != MC_NEVER) return -1;
	for (y = x; y >= 0; y = parent_of[y]) if (notify_invoked[y]) { c = y; k++; }
	return k == 1 ? c : -1;
}
MC_ORACLE static int obs_begin (int x) { (void) x; return ++stamp; }
MC_ORACLE static void obs_end (int x, int inv, int result, const char *what) {
	if (result) {
		if (!cause_begun (x)) mc_fail ("%s reported note %c notified although neither it nor an ancestor was notified and no deadline on its path has passed", what, letters[x]);
		if (!seen_notified[x]) seen_notified[x] = ++stamp;
	} else if (seen_notified[x] && seen_notified[x] < inv)
		mc_fail ("%s reported note %c NOT notified after an earlier observation had seen it notified", what, letters[x]);
}
MC_ORACLE static void notify_begin (int x) { notify_invoked[x] = 1; }
MC_ORACLE static void notify_end (int x) {
	notify_done[x] = 1;
	if (!peek_notified (note[x])) mc_fail ("nsync_note_notify (%c) returned but the note is not notified", letters[x]);
}
MC_ORACLE static void wait_begin (int x, int64_t dl) { int me = mc_self (); waiting[me].active = 1; waiting[me].x = x; waiting[me].dl = dl; }
MC_ORACLE static void wait_end (int x, int64_t dl, int r) {
	waiting[mc_self ()].active = 0;
	if (!r) {
		if (dl == MC_NEVER) mc_fail ("nsync_note_wait without deadline reported a timeout");
		else if (mc_now_ns () < dl) mc_fail ("nsync_note_wait reported a timeout before its deadline");
	}
	(void) x;
}
MC_ORACLE static int seen_before (int x) { return seen_notified[x] != 0; }
MC_ORACLE static void mark_rescue (void) { rescue_begun = 1; }
MC_ORACLE static void mark_free_begun (int x) { free_begun[x] = 1; }
MC_ORACLE static void mark_freed (int x) { freed[x] = 1; }

static void note_thread (int me) {
	int k;
	for (k = 0; k < h_nops[me]; k++) {
		const char *o = h_op[me][k]; size_t l = strlen (o);
		int x = idx (o[l-1]), r = 0, inv;
		switch (o[0]) {
		case 'n': payload[x] = 1; notify_begin (x); nsync_note_notify (note[x]); notify_end (x); break;
		case 'i': inv = obs_begin (x); r = nsync_note_is_notified (note[x]); obs_end (x, inv, r, "nsync_note_is_notified");
			/* C03: notifying a note happens before any observation that it is notified */
			if (r) { int y = sole_cause (x); if (y >= 0) mc_assert (payload[y] == 1, "data written before nsync_note_notify is not visible to an observer that saw the note notified"); }
			break;
		case 'w': {
			int64_t dl = l == 2 ? MC_NEVER : o[1] == 'd' ? H_D1 : H_D2;
			inv = obs_begin (x); wait_begin (x, dl);
			r = nsync_note_wait (note[x], h_time (dl));
			wait_end (x, dl, r); obs_end (x, inv, r, "nsync_note_wait");
			if (r) { int y = sole_cause (x); if (y >= 0) mc_assert (payload[y] == 1, "data written before nsync_note_notify is not visible to a waiter released by it"); }
			break; }
		case 'e': {
			int64_t want = path_deadline (x), got = h_ns (nsync_note_expiry (note[x]));
			/* All notes are created at T0 before any notification.  If nothing on the path had
			   expired by then, the expiry is exactly the minimum deadline; if something had (a
			   'p' deadline), the note was born notified and any instant <= T0 says so. */
			if (want > MC_T0) { if (got != want) mc_fail ("nsync_note_expiry (%c) is %lld, the minimum deadline on its path is %lld", letters[x], (long long) got, (long long) want); }
			else if (got > MC_T0) mc_fail ("nsync_note_expiry (%c) is in the future (%lld) although a deadline on its path had passed at creation", letters[x], (long long) got);
			break; }
		case 'k': {
			/* sampled BEFORE the creation begins: a child whose creation started after X had been observed
			   notified must be born notified; one that was linked earlier and is still waiting for a
			   notification in progress to reach it need not be yet */
			int parent_seen = seen_before (x);
			nsync_note kid = nsync_note_new (note[x], nsync_time_no_deadline);
			if (kid != NULL) {
				int done_before = cause_done (x);   /* every notification of x / an ancestor that was begun has completed */
				r = nsync_note_is_notified (kid);
				mc_assert (r || !parent_seen, "a child created under note %c after it was seen notified is not notified", letters[x]);
				mc_assert (r || !done_before, "a child of note %c is not notified although the notification of %c (or of an ancestor) had completed before it was polled", letters[x], letters[x]);
				mc_assert (!r || cause_begun (x), "a fresh child of note %c is notified although nothing on its path is", letters[x]);
				nsync_note_free (kid);
			}
			break; }
		case 'K': kept[me][x] = nsync_note_new (note[x], nsync_time_no_deadline); if (K_returned (x)) mc_flag_set (&K_all_done[x], 1); break;
		case 'a': if (nK[x] > 0) mc_await (&K_all_done[x]); break;
		case 'Q': if (kept[me][x] != NULL) { r = nsync_note_is_notified (kept[me][x]); nsync_note_free (kept[me][x]); kept[me][x] = NULL; } break;
		case 'f': mark_free_begun (x); nsync_note_free (note[x]); mark_freed (x); break;
		}
		h_res[me][k] = r;
	}
}
static void note_observer (void) {
	int x, i; unsigned left;
	/* only nsync_note_wait may legitimately still be blocked here: every other call must have returned */
	for (i = 0; i < h_nthreads; i++) if (!mc_fiber_done (i) && !waiting[i].active)
		mc_fail ("T%d is blocked for ever inside a note operation that is not a wait (notify / is_notified / new / free never returned)", i);
	/* nobody may be asleep on a note whose cause is complete */
	for (i = 0; i < MC_MAXF; i++) if (waiting[i].active) {
		if (cause_done (waiting[i].x)) mc_fail ("T%d is still asleep in nsync_note_wait (%c) although the note (or an ancestor) was notified / its deadline passed and no notification is in progress", i, letters[waiting[i].x]);
		if (waiting[i].dl <= mc_now_ns ()) mc_fail ("T%d is still asleep in nsync_note_wait although its deadline has passed", i);
	}
	for (x = 0; x < NN; x++) if (note[x] != NULL && !freed[x]) {
		int got, inv;
		if (free_begun[x]) continue;
		inv = obs_begin (x);
		got = nsync_note_is_notified (note[x]);
		obs_end (x, inv, got, "nsync_note_is_notified (observer)");
		if (cause_done (x) && !got) mc_fail ("note %c is not notified at quiescence although it or an ancestor was notified (or a deadline on its path passed)", letters[x]);
	}
	/* rescue: release whoever waits on a note that legitimately never fires */
	mark_rescue ();
	for (x = 0; x < NN; x++) if (note[x] != NULL && !freed[x] && !free_begun[x]) { notify_begin (x); nsync_note_notify (note[x]); }
	left = mc_quiesce ();
	mc_assert (left == 0, "threads 0x%x still blocked after every live note was notified", left);
}
MC_ORACLE static void note_final (void) { int x; h_outcome_results (); mc_outcome (" seen="); for (x = 0; x < NN; x++) mc_outcome ("%d", seen_notified[x] != 0); }
extern const struct mc_family fam_note;
const struct mc_family fam_note = { "note", note_setup, note_init, note_thread, note_observer, note_final };
