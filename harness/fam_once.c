/* Family "once" (C07).  Operations: O (nsync_run_once), Oa (nsync_run_once_arg),
   Os (nsync_run_once_spin), Oas (nsync_run_once_arg_spin); a trailing '2' uses a second
   nsync_once object 256 bytes away, which maps to the same internal once_sync slot.
   On: nsync_run_once on the first object with a function that itself calls nsync_run_once on the
   second one (nested lazy initialisation through the shared slot); Ow: nsync_run_once on the first
   object with a function that waits until some call on the second object has returned (an initialiser
   that depends on another thread's progress; legal only if another thread starts with a call on the
   second object).
   The once-function contains two scheduling points and plain writes.
   Oracles: immediately after every call returns, the function has run exactly once and has
   completed; a call made after some call on that object already returned does not block. */
#include "hcommon.h"

static nsync_once onces[65];
static int runs[2], completed[2];      /* plain client data written by the once-function */
static int some_call_returned[2];

static int once_setup (const char *program) {
	int t, k, n = h_parse (program);
	if (n < 1) return -1;
	for (t = 0; t < n; t++) for (k = 0; k < h_nops[t]; k++) {
		const char *o = h_op[t][k]; size_t l = strlen (o);
		if (!strcmp (o, "On")) continue;
		if (!strcmp (o, "Ow")) {
			int u, ok = 0;
			for (u = 0; u < n && !ok; u++) if (u != t && h_nops[u] > 0) { const char *f = h_op[u][0]; ok = (f[strlen (f) - 1] == '2'); }
			if (!ok) return -1;
			continue;
		}
		if (l > 0 && o[l-1] == '2') l--;
		if (!((l == 1 && !strncmp (o, "O", 1)) || (l == 2 && (!strncmp (o, "Oa", 2) || !strncmp (o, "Os", 2))) || (l == 3 && !strncmp (o, "Oas", 3)))) return -1;
	}
	return n;
}
static void once_init (void) {
	mc_name (&onces[0], sizeof onces[0], "once0"); mc_name (&onces[64], sizeof onces[64], "once1");
	h_install_rwlock_listener ();
}
static void body (int i) {
	mc_point ();
	runs[i] = runs[i] + 1;
	mc_point ();
	completed[i] = 1;
}
static void f0 (void) { body (0); }
static void f1 (void) { body (1); }
static void fa (void *a) { body ((int) (intptr_t) a); }
static volatile int second_returned;
MC_ORACLE static void inner_returned (void) {
	if (runs[1] != 1 || !completed[1]) mc_fail ("a nested nsync_run_once call returned with the function having run %d times (completed=%d)", runs[1], completed[1]);
	some_call_returned[1] = 1;
}
static void fnest (void) { mc_point (); nsync_run_once (&onces[64], &f1); inner_returned (); mc_flag_set (&second_returned, 1); body (0); }
static void fwait (void) { mc_point (); mc_await (&second_returned); body (0); }
MC_ORACLE static int armed (int i) { return some_call_returned[i]; }
MC_ORACLE static void after_call (int i, int was_armed, unsigned blocks) {
	if (runs[i] != 1) mc_fail ("an nsync_run_once* call returned with the function having run %d times", runs[i]);
	if (!completed[i]) mc_fail ("an nsync_run_once* call returned before the run of the function had completed");
	if (was_armed && blocks != 0) mc_fail ("a call on an nsync_once that was already done blocked (%u times)", blocks);
	some_call_returned[i] = 1;
}
static void once_thread (int me) {
	int k;
	for (k = 0; k < h_nops[me]; k++) {
		const char *o = h_op[me][k]; size_t l = strlen (o);
		int i = (o[l-1] == '2'), a;
		nsync_once *p = &onces[i ? 64 : 0];
		unsigned b;
		if (i) l--;
		a = armed (i);
		mc_blocks_reset ();
		if (!strcmp (o, "On")) nsync_run_once (p, &fnest);
		else if (!strcmp (o, "Ow")) nsync_run_once (p, &fwait);
		else if (l == 1) nsync_run_once (p, i ? &f1 : &f0);
		else if (l == 2 && o[1] == 'a') nsync_run_once_arg (p, &fa, (void *) (intptr_t) i);
		else if (l == 2) nsync_run_once_spin (p, i ? &f1 : &f0);
		else nsync_run_once_arg_spin (p, &fa, (void *) (intptr_t) i);
		b = mc_blocks ();
		/* the data written by the function must be visible here: plain reads (race monitor) */
		mc_assert (runs[i] == 1 && completed[i] == 1, "once-function effects not visible after return (runs=%d completed=%d)", runs[i], completed[i]);
		after_call (i, a, b);
		if (i) mc_flag_set (&second_returned, 1);
	}
}
MC_ORACLE static void once_final (void) { mc_outcome ("runs=%d,%d", runs[0], runs[1]); }
extern const struct mc_family fam_once;
const struct mc_family fam_once = { "once", once_setup, once_init, once_thread, NULL, once_final };
