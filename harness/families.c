#include "hcommon.h"
extern const struct mc_family fam_mu, fam_sem, fam_cv, fam_muwait, fam_once, fam_counter, fam_refcnt, fam_note, fam_waitn, fam_debugseq, fam_starve, fam_alloc, fam_toy, fam_adversary;
const struct mc_family *const mc_families[] = { &fam_mu, &fam_sem, &fam_cv, &fam_muwait, &fam_once, &fam_counter, &fam_refcnt, &fam_note, &fam_waitn, &fam_debugseq, &fam_starve, &fam_alloc, &fam_toy, &fam_adversary, NULL };
