#include "hcommon.h"
extern const struct mc_family fam_mu, fam_sem, fam_cv, fam_muwait;
const struct mc_family *const mc_families[] = { &fam_mu, &fam_sem, &fam_cv, &fam_muwait, NULL };
