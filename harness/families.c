#include "hcommon.h"
extern const struct mc_family fam_mu, fam_sem;
const struct mc_family *const mc_families[] = { &fam_mu, &fam_sem, NULL };
