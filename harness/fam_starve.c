/* Family "starve" (C14).  Built with -DNSYNC_VERIF_LONG_WAIT_THRESHOLD=T (T = 1, 2, 3).
   Thread 0 is the victim:  V  lock; section; unlock      Vr  rlock; section; runlock
   The others barge:        Lk / Rk / Tk   k times { lock | rlock | trylock; section; unlock; voluntary yield }
   Oracle (API level; the runtime counts semaphore sleeps per call): from the moment the victim's
   (T+1)-th sleep in its call has begun until it acquires, no lock / rlock / trylock call that has
   itself never slept may succeed.  The instant of an acquisition is nsync's own
   AnnotateRWLockAcquired event, which fires in the same step as the acquiring operation.  */
#include "hcommon.h"

static nsync_mu mu;
static int datum;
static int victim_in_call, victim_reader;
static int max_victim_sleeps;

static int st_setup (const char *program) {
	int t, k, n = h_parse (program);
	if (n < 2) return -1;
	if (h_nops[0] != 1 || (strcmp (h_op[0][0], "V") && strcmp (h_op[0][0], "Vr"))) return -1;
	for (t = 1; t < n; t++) for (k = 0; k < h_nops[t]; k++) {
		const char *o = h_op[t][k];
		if (!strchr ("LRT", o[0]) || o[0] == 0 || o[1] < '1' || o[1] > '9' || o[2]) return -1;
	}
	return n;
}
MC_ORACLE static void acquired (void *m, int acq, int writer) {
	int me = mc_self ();
	(void) writer;
	if (m != (void *) &mu || !acq) return;
	if (me == 0) { victim_in_call = 0; return; }
	if (victim_in_call && ((int) mc_sleeps_of (0) >= LONG_WAIT_THRESHOLD + 1 || (int) h_call_dequeues (0) >= LONG_WAIT_THRESHOLD + 1) && !h_call_has_waited (me))
		mc_fail ("starvation avoidance broken: T%d acquired the mutex with a call that never waited, although the victim has been sent back to sleep %u times (threshold %d)", me, mc_sleeps_of (0), LONG_WAIT_THRESHOLD);
}
static void st_init (void) { nsync_mu_init (&mu); mc_name (&mu, sizeof mu, "mu"); mc_rwlock_listener = &acquired; }
MC_ORACLE static void victim_begin (int reader) { victim_in_call = 1; victim_reader = reader; }
MC_ORACLE static void victim_end (unsigned sleeps) { if ((int) sleeps > max_victim_sleeps) max_victim_sleeps = (int) sleeps; }
static void st_thread (int me) {
	int k, i;
	if (me == 0) {
		int reader = h_op[0][0][1] == 'r';
		unsigned s;
		mc_blocks_reset (); h_call_begin ();
		victim_begin (reader);
		if (reader) nsync_mu_rlock (&mu); else nsync_mu_lock (&mu);
		s = mc_sleeps_of (0);
		(void) mc_blocks ();
		victim_end (s);
		h_enter (&mu, !reader, "victim's lock");
		if (!reader) datum++;
		h_leave (&mu, !reader);
		if (reader) nsync_mu_runlock (&mu); else nsync_mu_unlock (&mu);
		return;
	}
	for (k = 0; k < h_nops[me]; k++) {
		const char *o = h_op[me][k];
		for (i = 0; i < o[1] - '0'; i++) {
			int got = 1, writer = (o[0] != 'R');
			mc_blocks_reset (); h_call_begin ();
			if (o[0] == 'L') nsync_mu_lock (&mu); else if (o[0] == 'R') nsync_mu_rlock (&mu); else got = nsync_mu_trylock (&mu);
			(void) mc_blocks ();
			if (got) {
				h_enter (&mu, writer, "barger's lock");
				mc_point ();
				if (writer) datum++;
				h_leave (&mu, writer);
				if (writer) nsync_mu_unlock (&mu); else nsync_mu_runlock (&mu);
			}
			mc_yield ();
		}
	}
}
MC_ORACLE static void st_final (void) { mc_outcome ("max_victim_sleeps=%d", max_victim_sleeps); }
extern const struct mc_family fam_starve;
const struct mc_family fam_starve = { "starve", st_setup, st_init, st_thread, NULL, st_final };
