/* Family "starve" (C14).  Built with -DNSYNC_VERIF_LONG_WAIT_THRESHOLD=T (T = 1, 2, 3).
   Victims (thread 0, and any further thread whose single operation is V / Vr -- two reader victims are the
   only way to have two long waiters at once, since readers are woken together):
                            V  lock; section; unlock      Vr  rlock; section; runlock
   The others barge:        Lk / Rk / Tk   k times { lock | rlock | trylock; section; unlock; voluntary yield }
   Oracle (API level; the runtime counts semaphore sleeps per call): from the moment the victim's
   (T+1)-th sleep in its call has begun until it acquires, no lock / rlock / trylock call that has
   itself never slept may succeed.  The instant of an acquisition is nsync's own
   AnnotateRWLockAcquired event, which fires in the same step as the acquiring operation.  */
#include "hcommon.h"

static nsync_mu mu;
static int datum;
static int victim_in_call[H_MAXT], is_victim[H_MAXT];
static int max_victim_sleeps;
static int excused[H_MAXT]; static unsigned ex_deq[H_MAXT];

static int st_setup (const char *program) {
	int t, k, n = h_parse (program);
	if (n < 2) return -1;
	if (h_nops[0] != 1 || (strcmp (h_op[0][0], "V") && strcmp (h_op[0][0], "Vr"))) return -1;
	for (t = 0; t < H_MAXT; t++) is_victim[t] = 0;
	is_victim[0] = 1;
	for (t = 1; t < n; t++) {
		if (h_nops[t] == 1 && (!strcmp (h_op[t][0], "V") || !strcmp (h_op[t][0], "Vr"))) { is_victim[t] = 1; continue; }
		for (k = 0; k < h_nops[t]; k++) {
			const char *o = h_op[t][k];
			if (!strchr ("LRT", o[0]) || o[0] == 0 || o[1] < '1' || o[1] > '9' || o[2]) return -1;
		}
	}
	return n;
}
MC_ORACLE static void acquired (void *m, int acq, int writer) {
	int me = mc_self ();
	(void) writer;
	if (m != (void *) &mu || !acq) return;
	if (me >= 0 && me < H_MAXT && is_victim[me]) victim_in_call[me] = 0;
	/* MU_LONG_WAIT is one bit shared by all long waiters (threads woken LONG_WAIT_THRESHOLD times in their
	   call, victims and bargers alike) and is cleared by whichever of them acquires: the other long waiters
	   are unprotected until they queue again and set the bit again.  That single slip per other long waiter
	   is by design and keeps the bound; it is excused below until the victim has provably queued again: until
	   it has been taken off the queue more often than the queueings that existed when the bit was cleared
	   allow (its dequeue count then, plus one if it was queued then).  */
	if (me >= 0 && (int) h_call_dequeues (me) >= LONG_WAIT_THRESHOLD)
		for (int v = 0; v < h_nthreads; v++) if (v != me && is_victim[v]) { excused[v] = 1; ex_deq[v] = h_call_dequeues (v) + (h_waiter_flagged (v) ? 1 : 0); }
	for (int v = 0; v < h_nthreads; v++)
		if (v != me && is_victim[v] && victim_in_call[v] && ((int) mc_sleeps_of (v) >= LONG_WAIT_THRESHOLD + 1 || (int) h_call_dequeues (v) >= LONG_WAIT_THRESHOLD + 1) && !h_call_has_waited (me)) {
			if (excused[v] && h_call_dequeues (v) <= ex_deq[v]) continue;   /* v has not provably queued again since the bit was cleared */
			mc_fail ("starvation avoidance broken: T%d acquired the mutex with a call that never waited, although the victim T%d has been sent back to sleep %u times (threshold %d)", me, v, mc_sleeps_of (v), LONG_WAIT_THRESHOLD);
			return;
		}
}
static void st_init (void) { nsync_mu_init (&mu); mc_name (&mu, sizeof mu, "mu"); mc_rwlock_listener = &acquired; }
MC_ORACLE static void victim_begin (int me) { victim_in_call[me] = 1; }
MC_ORACLE static void victim_end (unsigned sleeps) { if ((int) sleeps > max_victim_sleeps) max_victim_sleeps = (int) sleeps; }
static void st_thread (int me) {
	int k, i;
	if (is_victim[me]) {
		int reader = h_op[me][0][1] == 'r';
		unsigned s;
		mc_blocks_reset (); h_call_begin ();
		victim_begin (me);
		if (reader) nsync_mu_rlock (&mu); else nsync_mu_lock (&mu);
		s = mc_sleeps_of (me);
		(void) mc_blocks ();
		victim_end (s);
		h_enter (&mu, !reader, "victim's lock");
		if (!reader) datum++;
		h_leave (&mu, !reader);
		if (reader) nsync_mu_runlock (&mu); else nsync_mu_unlock (&mu);
		return;
	}
	for (k = 0; k < h_nops[me]; k++) {
		const char *o = h_op[me][k];
		for (i = 0; i < o[1] - '0'; i++) {
			int got = 1, writer = (o[0] != 'R');
			mc_blocks_reset (); h_call_begin ();
			if (o[0] == 'L') nsync_mu_lock (&mu); else if (o[0] == 'R') nsync_mu_rlock (&mu); else got = nsync_mu_trylock (&mu);
			(void) mc_blocks ();
			if (got) {
				h_enter (&mu, writer, "barger's lock");
				mc_point ();
				if (writer) datum++;
				h_leave (&mu, writer);
				if (writer) nsync_mu_unlock (&mu); else nsync_mu_runlock (&mu);
			}
			mc_yield ();
		}
	}
}
MC_ORACLE static void st_final (void) { mc_outcome ("max_victim_sleeps=%d", max_victim_sleeps); }
extern const struct mc_family fam_starve;
const struct mc_family fam_starve = { "starve", st_setup, st_init, st_thread, NULL, st_final };
