/* Family "debugseq" (C16, sequential part).  Program "<kind><k>": kind m = mutex, c = condition
   variable; k = 0..3 queued waiters of mixed kinds (mutex: writer, reader, conditional waiter;
   cv: writer-mode, reader-mode, nsync_wait_n record is not used here because the debug code
   assumes native waiters).  The waiters run until they sleep; then the observer, at quiescence,
   calls all four debug-state functions for every buffer size n = 0..80 and checks:
     - nothing outside buf[0..n-1] is written (exact-size arena blocks between red zones);
     - for n >= 1 the result is NUL-terminated inside the buffer;
     - against the untruncated reference (n = 1024): if it fits (length+1 <= n) the result equals
       it; otherwise, for n >= 4, the result has length n-1, ends in "..." and its first n-4
       characters are a prefix of the reference;
     - the object still works afterwards (everybody is released and finishes).  */
#include "hcommon.h"

static nsync_mu mu; static nsync_cv cv;
static int kind_cv, nwait;
static volatile int release_holder;
static int flag, cond_v;
static int evaluations;

static int cond_true (const void *v) { return *(const int *) v != 0; }
static int ds_setup (const char *program) {
	if (strlen (program) != 2 || (program[0] != 'm' && program[0] != 'c') || program[1] < '0' || program[1] > '3') return -1;
	kind_cv = program[0] == 'c'; nwait = program[1] - '0';
	h_parse ("x");
	return nwait + 1;
}
static void ds_init (void) { nsync_mu_init (&mu); nsync_cv_init (&cv); mc_name (&mu, sizeof mu, "mu"); mc_name (&cv, sizeof cv, "cv"); }
static void ds_thread (int me) {
	if (me == 0) {            /* the holder: keeps the mutex while the others queue up */
		if (!kind_cv) { nsync_mu_lock (&mu); mc_await (&release_holder); cond_v = 1; nsync_mu_unlock (&mu); }
		else { mc_await (&release_holder); nsync_mu_lock (&mu); flag = 1; nsync_cv_broadcast (&cv); nsync_mu_unlock (&mu); }
	} else if (!kind_cv) {
		switch (me) {
		case 1: nsync_mu_lock (&mu); nsync_mu_unlock (&mu); break;
		case 2: nsync_mu_rlock (&mu); nsync_mu_runlock (&mu); break;
		default: nsync_mu_lock (&mu); nsync_mu_wait (&mu, &cond_true, &cond_v, NULL); nsync_mu_unlock (&mu); break;
		}
	} else {
		if (me == 2) { nsync_mu_rlock (&mu); while (!flag) nsync_cv_wait (&cv, &mu); nsync_mu_runlock (&mu); }
		else { nsync_mu_lock (&mu); while (!flag) nsync_cv_wait (&cv, &mu); nsync_mu_unlock (&mu); }
	}
}
MC_ORACLE static int slen (const char *s, int max) { int i; for (i = 0; i < max; i++) if (!s[i]) return i; return -1; }
static char *call (int which, char *buf, int n) {
	switch (which) {
	case 0: return nsync_mu_debug_state (&mu, buf, n);
	case 1: return nsync_mu_debug_state_and_waiters (&mu, buf, n);
	case 2: return nsync_cv_debug_state (&cv, buf, n);
	default: return nsync_cv_debug_state_and_waiters (&cv, buf, n);
	}
}
MC_ORACLE static void compare (int which, const char *ref, int rl, const char *buf, int n) {
	static const char *const nm[] = { "nsync_mu_debug_state", "nsync_mu_debug_state_and_waiters", "nsync_cv_debug_state", "nsync_cv_debug_state_and_waiters" };
	int l;
	evaluations++;
	if (n == 0) return;
	l = slen (buf, n);
	if (l < 0) { mc_fail ("%s: %d-byte buffer not NUL-terminated", nm[which], n); return; }
	if (rl + 1 <= n) {
		if (l != rl || memcmp (buf, ref, rl) != 0) mc_fail ("%s: result in a %d-byte buffer differs from the untruncated text although it fits (%d chars)", nm[which], n, rl);
	} else if (n >= 4) {
		if (l != n - 1) mc_fail ("%s: truncated result in a %d-byte buffer has length %d, expected %d", nm[which], n, l, n - 1);
		else if (memcmp (buf + n - 4, "...", 3) != 0) mc_fail ("%s: truncated result in a %d-byte buffer does not end in \"...\"", nm[which], n);
		else if (memcmp (buf, ref, n - 4) != 0) mc_fail ("%s: truncated result in a %d-byte buffer is not a prefix of the untruncated text", nm[which], n);
	} else if (l > n - 1) mc_fail ("%s: result longer than the buffer", nm[which]);
}
static void ds_observer (void) {
	int which, n, k; unsigned left;
	for (which = 0; which < 4; which++) {
		char *ref = (char *) mc_malloc (1024); int rl;
		call (which, ref, 1024);
		rl = slen (ref, 1024);
		mc_assert (rl > 0, "reference debug string empty or unterminated");
		/* n = 0..80, and the five sizes around the exact length of the untruncated text (the
		   terminator's own bounds check matters exactly when the text fills the buffer) */
		for (k = 0; k <= 80 + 5; k++) {
			char *buf;
			n = k <= 80 ? k : rl - 2 + (k - 81);
			if (k > 80 && n <= 80) continue;
			buf = (char *) mc_malloc (n > 0 ? n : 1);
			if (n > 0) memset (buf, 'x', n);
			mc_assert (call (which, buf, n) == buf, "debug-state function did not return its buffer");
			compare (which, ref, rl, buf, n);
		}
	}
	mc_flag_set (&release_holder, 1);
	left = mc_quiesce ();
	mc_assert (left == 0, "threads 0x%x never finished after the debug-state calls", left);
}
MC_ORACLE static void ds_final (void) { mc_outcome ("evals=%d", evaluations); }
extern const struct mc_family fam_debugseq;
const struct mc_family fam_debugseq = { "debugseq", ds_setup, ds_init, ds_thread, ds_observer, ds_final };
