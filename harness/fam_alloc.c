/* Family "alloc" (C19).  Program "<k>:<shape>[:c]".
   Thread 0 builds a small world with the constructors, in this order, for the letters of <shape>:
       R root note        C child of R        G child of C        S child of R with deadline D1
       c nsync_counter_new (1)               z nsync_counter_new (0)
   The k-th allocation performed from the start of the building phase fails (k = 0: none; the
   driver first runs k = 0 to learn how many allocations the constructors perform).
   With the suffix ":c" a second thread concurrently polls and finally notifies R while thread 0
   builds (both threads' per-thread waiter records are allocated before the fault is armed, by
   one timed-out cv wait each -- that allocation belongs to the mutex layer, not to the
   constructors the property is about).
   Oracles: the constructor whose allocation failed returns NULL and does not crash; its intended
   parent's child list and notified state are what they were (peeked); everything built so far
   stays usable: a later nsync_note_new on the same parent succeeds and is linked, and notifying R
   at the end reaches all and only the notes that exist below R; counters count.  */
#include "hcommon.h"

static int fail_k, concurrent;
static char shape[8];
static nsync_note R, C, G, S, extra;
static nsync_counter cnt[2];
static int built_allocs;
static volatile int root_ready, build_done, other_prewarmed;

static int al_setup (const char *program) {
	const char *c1 = strchr (program, ':'), *c2;
	size_t n;
	if (!c1) return -1;
	fail_k = atoi (program);
	c2 = strchr (c1 + 1, ':');
	n = c2 ? (size_t) (c2 - c1 - 1) : strlen (c1 + 1);
	if (n < 1 || n > 6) return -1;
	memcpy (shape, c1 + 1, n); shape[n] = 0;
	if (strspn (shape, "RCGScz") != n || shape[0] != 'R') return -1;
	concurrent = c2 && !strcmp (c2, ":c");
	h_parse ("x");
	return concurrent ? 2 : 1;
}
static void al_init (void) { h_install_rwlock_listener (); }
static void prewarm (void) {
	nsync_mu m; nsync_cv c;
	nsync_mu_init (&m); nsync_cv_init (&c);
	nsync_mu_lock (&m);
	nsync_cv_wait_with_deadline (&c, &m, h_time (H_PAST), NULL);
	nsync_mu_unlock (&m);
}
MC_ORACLE static int nchildren (nsync_note n) { int k = 0; nsync_dll_element_ *p; if (!n) return 0; for (p = nsync_dll_first_ (n->children); p != NULL; p = nsync_dll_next_ (n->children, p)) k++; return k; }
MC_ORACLE static int flag_of (nsync_note n) { return n ? (int) *(volatile uint32_t *) &n->notified : 0; }
static nsync_note make_note (nsync_note parent, int64_t dl, const char *what) {
	int before = nchildren (parent), fl = flag_of (parent), a0 = mc_alloc_count ();
	nsync_note n = nsync_note_new (parent, h_time (dl));
	int a1 = mc_alloc_count ();
	if (n == NULL) {
		mc_assert (fail_k != 0, "nsync_note_new (%s) returned NULL although no allocation failed", what);
		mc_assert (nchildren (parent) == before, "failed nsync_note_new (%s) changed its parent's child list (%d -> %d)", what, before, nchildren (parent));
		mc_assert (concurrent || flag_of (parent) == fl, "failed nsync_note_new (%s) changed its parent's notified flag", what);
	} else {
		mc_assert (a1 > a0, "harness: a note was built without allocating");
		if (parent != NULL && !flag_of (parent) && !concurrent) mc_assert (nchildren (parent) == before + 1, "nsync_note_new (%s) did not link the note under its parent", what);
	}
	return n;
}
static void al_thread (int me) {
	const char *p;
	if (me == 1) {            /* concurrent user of the intended parent */
		prewarm ();
		mc_flag_set (&other_prewarmed, 1);
		mc_await (&root_ready);
		if (R != NULL) {
			(void) nsync_note_is_notified (R);
			mc_point ();
			(void) nsync_note_is_notified (R);
			mc_await (&build_done);
		}
		return;
	}
	prewarm ();
	if (concurrent) mc_await (&other_prewarmed);   /* the fault is armed only once every thread owns its waiter record */
	mc_fail_alloc_at (fail_k);
	{ int a0 = mc_alloc_count ();
	for (p = shape; *p; p++) switch (*p) {
		case 'R': R = make_note (NULL, MC_NEVER, "root"); mc_flag_set (&root_ready, 1); break;
		case 'C': C = make_note (R, MC_NEVER, "child of R"); break;
		case 'G': G = make_note (C != NULL ? C : R, MC_NEVER, "grandchild"); break;
		case 'S': S = make_note (R, H_D1, "second child of R"); break;
		case 'c': case 'z': {
			int i = (*p == 'z');
			cnt[i] = nsync_counter_new (i ? 0 : 1);
			if (cnt[i] == NULL) mc_assert (fail_k != 0, "nsync_counter_new returned NULL although no allocation failed");
			break; }
	}
	built_allocs = mc_alloc_count () - a0; }
	/* everything that exists must still work */
	mc_fail_alloc_at (0);
	if (R != NULL) {
		int before = nchildren (R);
		extra = nsync_note_new (R, nsync_time_no_deadline);
		mc_assert (extra != NULL, "nsync_note_new on the parent fails after an earlier allocation failure");
		mc_assert (nchildren (R) == before + 1, "a note created after the failure is not linked under its parent");
		mc_assert (!nsync_note_is_notified (R) && !nsync_note_is_notified (extra), "notes notified although nobody notified them");
		if (C != NULL) mc_assert (!nsync_note_is_notified (C), "C notified early");
		nsync_note_notify (R);
		mc_assert (nsync_note_is_notified (R), "root not notified after notify");
		mc_assert (nsync_note_is_notified (extra), "notification of the parent did not reach a child created after the failure");
		if (C != NULL) mc_assert (nsync_note_is_notified (C), "notification did not reach C");
		if (G != NULL) mc_assert (nsync_note_is_notified (G), "notification did not reach G");
		if (S != NULL) mc_assert (nsync_note_is_notified (S), "notification did not reach S");
		mc_assert (nchildren (R) == 0, "children still attached to a notified note");
	} else {
		/* the root itself failed: notes built under a NULL parent are roots and unaffected */
		if (C != NULL) { mc_assert (!nsync_note_is_notified (C), "C notified without cause"); nsync_note_notify (C); mc_assert (nsync_note_is_notified (C), "C not notified after notify"); }
	}
	if (cnt[0] != NULL) { mc_assert (nsync_counter_value (cnt[0]) == 1, "counter value wrong"); mc_assert (nsync_counter_add (cnt[0], -1) == 0, "counter add wrong"); mc_assert (nsync_counter_wait (cnt[0], h_time (H_PAST)) == 0, "counter wait at zero"); }
	if (cnt[1] != NULL) mc_assert (nsync_counter_value (cnt[1]) == 0, "counter value wrong");
	mc_flag_set (&build_done, 1);
}
MC_ORACLE static void al_final (void) { mc_outcome ("allocs=%d R=%d C=%d G=%d S=%d c=%d z=%d", built_allocs, R != NULL, C != NULL, G != NULL, S != NULL, cnt[0] != NULL, cnt[1] != NULL); }
extern const struct mc_family fam_alloc;
const struct mc_family fam_alloc = { "alloc", al_setup, al_init, al_thread, NULL, al_final };
