/* Family "waitn" (C11, C13 second half): nsync_wait_n callers against notifiers, decrementers and
   signallers.

   Objects: notes a b e, counters c k (initial value 1), condition variable v (with mutex mu and
   a flag).  Caller operation
       W<objects>[d|p]      objects: 1..5 letters from {a,b,e,c,k,v}; more than 4 takes the heap
                            bookkeeping path.  d = deadline D1, p = deadline already past,
                            D = deadline D2; in a program that uses D, note e is created with its own
                            expiry D1 (a set holding a note that expires before the call's deadline).
                            If v is in the set the caller holds mu around the call and passes
                            lock/unlock callbacks.
   Other operations
       na nb ne   nsync_note_notify          dc dk   nsync_counter_add (-1) (to zero)
       S  lock; flag=1; signal; unlock       S' lock; flag=1; unlock; signal      B / B' broadcast
       Vw lock; while (!flag) nsync_cv_wait; unlock   (an ordinary waiter on the same cv)
       @k wait until k callers have had their mutex released by nsync_wait_n / started to wait

   Oracles (C11)
     * result i < count: object i is ready at return (note notified, counter zero, or for the cv: a
       signal/broadcast was invoked after this call was invoked);
     * result == count: the deadline has passed, and no note/counter of the set had become ready
       before the call was invoked, nor while the clock was still before the deadline;
     * progress: nobody sleeps with a ready object (terminal-state rule; checked before rescue);
     * clean-up: after all callers have returned and their threads exited, the observer notifies
       every note, zeroes every counter, broadcasts the cv and frees notes and counters: a record
       left on any list is then dereferenced in a dead stack frame / freed heap block (runtime
       liveness monitor) or trips nsync's own "no waiters" assertion in the free functions;
     * mutex protocol: the unlock callback runs only after the record is on every object's list
       (peeked for notes and the cv), lock runs before return, shadow occupancy says held at return.
   C13: the same runs with the liveness monitor: a waker may not touch the on-stack / heap records
   after the call can have returned.  Callers return to shallow stack depth and exit. */
#include "hcommon.h"

enum { OA, OB, OE, OC, OK, OV, NOBJ };
static const char oletters[] = "abeckv";
static nsync_note notes[3];
static nsync_counter ctrs[2];
static nsync_mu mu; static nsync_cv cv; static int flag;
static int ready_stamp[NOBJ];           /* stamp at which the readiness event completed, 0 if not yet */
static int64_t ready_clock[NOBJ];
static int signal_invoked_stamp;        /* last stamp at which a signal/broadcast was invoked */
static int stamp;
static int registered; static volatile int registered_ge[8];
static int cv_waiters_plain;            /* ordinary cv waiters in the program */
struct callrec { int active; int set[5]; int n; int64_t dl; int inv; int unlocked; int has_cv; int registered; };
static struct callrec cr[MC_MAXF];
static int sleeping_plain[MC_MAXF];

static int oidx (char ch) { const char *p = strchr (oletters, ch); return (p && ch) ? (int) (p - oletters) : -1; }
static int e_expires;              /* the program uses deadline D: note e gets its own expiry D1 */
static int wn_setup (const char *program) {
	int t, k, n = h_parse (program);
	if (n < 1) return -1;
	cv_waiters_plain = 0; e_expires = 0;
	for (t = 0; t < n; t++) for (k = 0; k < h_nops[t]; k++) {
		const char *o = h_op[t][k]; size_t l = strlen (o);
		if (o[0] == 'W') {
			size_t i, m = l;
			if (o[l-1] == 'd' || o[l-1] == 'p') m--;
			else if (o[l-1] == 'D') { m--; e_expires = 1; }
			if (m < 2 || m > 6) return -1;
			for (i = 1; i < m; i++) if (oidx (o[i]) < 0) return -1;
		} else if (o[0] == 'n' && l == 2 && oidx (o[1]) >= 0 && oidx (o[1]) <= OE) ;
		else if (o[0] == 'd' && l == 2 && (o[1] == 'c' || o[1] == 'k')) {
			/* each counter may be decremented once (it starts at 1) */
			int t2, k2, cnt = 0; for (t2 = 0; t2 < n; t2++) for (k2 = 0; k2 < h_nops[t2]; k2++) if (!strcmp (h_op[t2][k2], o)) cnt++;
			if (cnt > 1) return -1;
		} else if (!strcmp (o, "S") || !strcmp (o, "S'") || !strcmp (o, "B") || !strcmp (o, "B'")) ;
		else if (!strcmp (o, "Vw")) cv_waiters_plain++;
		else if (o[0] == '@' && o[1] >= '1' && o[1] <= '7' && l == 2) ;
		else return -1;
	}
	return n;
}
static void wn_init (void) {
	int i;
	for (i = 0; i < 3; i++) notes[i] = nsync_note_new (NULL, (i == OE && e_expires) ? h_time (H_D1) : nsync_time_no_deadline);
	if (e_expires) mc_declare_instant (H_D1);
	for (i = 0; i < 2; i++) ctrs[i] = nsync_counter_new (1);
	nsync_mu_init (&mu); nsync_cv_init (&cv);
	mc_name (&mu, sizeof mu, "mu"); mc_name (&cv, sizeof cv, "cv");
	h_install_rwlock_listener ();
}
MC_ORACLE static int peek_ready (int o) {
	if (o <= OE) return *(volatile uint32_t *) &notes[o]->notified != 0 || (o == OE && e_expires && mc_now_ns () >= H_D1);
	if (o <= OK) return nsync_counter_value (ctrs[o - OC]) == 0;
	return 0;
}
MC_ORACLE static void event_done (int o) { if (!ready_stamp[o]) { ready_stamp[o] = ++stamp; ready_clock[o] = mc_now_ns (); } }
MC_ORACLE static void signal_invoked (void) { signal_invoked_stamp = ++stamp; }
MC_ORACLE static void call_begin (int me, const int *set, int n, int64_t dl, int has_cv) {
	int i; struct callrec *c = &cr[me];
	c->active = 1; c->n = n; c->dl = dl; c->inv = ++stamp; c->unlocked = 0; c->has_cv = has_cv; c->registered = 0;
	for (i = 0; i < n; i++) c->set[i] = set[i];
}
MC_ORACLE static void call_end (int me, int r) {
	struct callrec *c = &cr[me]; int i;
	c->active = 0;
	if (r < 0 || r > c->n) { mc_fail ("nsync_wait_n returned %d for %d objects", r, c->n); return; }
	if (r < c->n) {
		int o = c->set[r];
		if (o == OV) { if (signal_invoked_stamp < c->inv) mc_fail ("nsync_wait_n reported the condition variable (index %d) ready although no signal or broadcast was issued since the call began", r); }
		else if (!peek_ready (o)) mc_fail ("nsync_wait_n returned index %d but object '%c' is not ready", r, oletters[o]);
	} else {
		if (c->dl == MC_NEVER) mc_fail ("nsync_wait_n without deadline reported a timeout");
		else if (mc_now_ns () < c->dl) mc_fail ("nsync_wait_n reported a timeout before its deadline");
		for (i = 0; i < c->n; i++) { int o = c->set[i];
			if (o != OV && ready_stamp[o] && (ready_stamp[o] < c->inv || ready_clock[o] < c->dl))
				mc_fail ("nsync_wait_n reported a timeout although object '%c' (index %d) had become ready %s", oletters[o], i, ready_stamp[o] < c->inv ? "before the call" : "before the deadline");
		}
	}
	if (c->has_cv && h_held_by_me (&mu) != 2) mc_fail ("nsync_wait_n returned without the mutex held");
}
/* lock / unlock callbacks handed to nsync_wait_n */
MC_ORACLE static int note_registered (void) { int me = mc_self (); if (me >= 0) cr[me].registered = 1; return ++registered; }
MC_ORACLE static int has_registered (int me) { return cr[me].registered; }
static void cb_lock (void *v) { nsync_mu_lock ((nsync_mu *) v); h_enter ((nsync_mu *) v, 1, "the lock callback of nsync_wait_n"); }
MC_ORACLE static void check_registered (int me) {
	struct callrec *c = &cr[me]; int i;
	for (i = 0; i < c->n; i++) { int o = c->set[i];
		if (o <= OE && notes[o]->waiters == NULL && !peek_ready (o)) mc_fail ("nsync_wait_n released the mutex before registering on note '%c'", oletters[o]);
		if (o == OV && cv.waiters == NULL) mc_fail ("nsync_wait_n released the mutex before registering on the condition variable");
	}
	c->unlocked = 1;
}
static void cb_unlock (void *v) {
	int me = mc_self (), n;
	check_registered (me);
	n = note_registered ();
	h_leave ((nsync_mu *) v, 1);
	nsync_mu_unlock ((nsync_mu *) v);
	mc_flag_set (&registered_ge[n], 1);
}

static int do_wait_n (int me, const char *o) {
	size_t l = strlen (o), m = l, i;
	int set[5], n = 0, r, has_cv = 0;
	int64_t dl = MC_NEVER;
	struct nsync_waitable_s w[5]; struct nsync_waitable_s *pw[5];
	if (o[l-1] == 'd') { dl = H_D1; m--; } else if (o[l-1] == 'p') { dl = H_PAST; m--; } else if (o[l-1] == 'D') { dl = H_D2; m--; }
	for (i = 1; i < m; i++) {
		int x = oidx (o[i]);
		set[n] = x;
		if (x <= OE) { w[n].v = notes[x]; w[n].funcs = &nsync_note_waitable_funcs; }
		else if (x <= OK) { w[n].v = ctrs[x - OC]; w[n].funcs = &nsync_counter_waitable_funcs; }
		else { w[n].v = &cv; w[n].funcs = &nsync_cv_waitable_funcs; has_cv = 1; }
		pw[n] = &w[n]; n++;
	}
	if (has_cv) {
		nsync_mu_lock (&mu); h_enter (&mu, 1, "nsync_mu_lock");
		r = 0;
		if (!flag) {
			call_begin (me, set, n, dl, 1);
			r = nsync_wait_n (&mu, &cb_lock, &cb_unlock, h_time (dl), n, pw);
			call_end (me, r);
		}
		h_leave (&mu, 1); nsync_mu_unlock (&mu);
		/* a call that found an object ready at once never released the mutex: announce it now,
		   so that threads sequenced after "k callers are waiting" are not left behind */
		if (!has_registered (me)) { int c = note_registered (); mc_flag_set (&registered_ge[c], 1); }
	} else {
		int c;
		call_begin (me, set, n, dl, 0);
		c = note_registered ();          /* callers without a mutex announce themselves before the call */
		mc_flag_set (&registered_ge[c], 1);
		r = nsync_wait_n (NULL, NULL, NULL, h_time (dl), n, pw);
		call_end (me, r);
	}
	return r;
}
MC_ORACLE static void plain_sleep (int me, int on) { sleeping_plain[me] = on; }
static void wn_thread (int me) {
	int k;
	for (k = 0; k < h_nops[me]; k++) {
		const char *o = h_op[me][k]; int r = 0;
		if (o[0] == 'W') r = do_wait_n (me, o);
		else if (o[0] == 'n') { nsync_note_notify (notes[oidx (o[1])]); event_done (oidx (o[1])); }
		else if (o[0] == 'd') { r = (int) nsync_counter_add (ctrs[o[1] == 'k'], -1); event_done (o[1] == 'k' ? OK : OC); }
		else if (o[0] == 'S' || o[0] == 'B') {
			int after = (o[1] == '\'');
			nsync_mu_lock (&mu); h_enter (&mu, 1, "nsync_mu_lock");
			flag = 1;
			if (!after) { signal_invoked (); if (o[0] == 'B') nsync_cv_broadcast (&cv); else nsync_cv_signal (&cv); }
			h_leave (&mu, 1); nsync_mu_unlock (&mu);
			if (after) { signal_invoked (); if (o[0] == 'B') nsync_cv_broadcast (&cv); else nsync_cv_signal (&cv); }
		} else if (o[0] == 'V') {
			nsync_mu_lock (&mu); h_enter (&mu, 1, "nsync_mu_lock");
			while (!flag) {
				int c = note_registered ();
				mc_flag_set (&registered_ge[c], 1);
				plain_sleep (me, 1);
				h_leave (&mu, 1); nsync_cv_wait (&cv, &mu); h_enter (&mu, 1, "return from nsync_cv_wait");
				plain_sleep (me, 0);
			}
			h_leave (&mu, 1); nsync_mu_unlock (&mu);
		} else if (o[0] == '@') mc_await (&registered_ge[o[1] - '0']);
		h_res[me][k] = r;
	}
}
static void wn_observer (void) {
	int i, j; unsigned left;
	for (i = 0; i < h_nthreads; i++) if (!mc_fiber_done (i) && !cr[i].active && !sleeping_plain[i])
		mc_fail ("T%d is blocked for ever in an operation that is not a wait: nobody is left to wake it", i);
	/* progress: nobody may sleep in nsync_wait_n with a ready note or counter in its set */
	for (i = 0; i < MC_MAXF; i++) if (cr[i].active) {
		for (j = 0; j < cr[i].n; j++) if (cr[i].set[j] != OV && ready_stamp[cr[i].set[j]])
			mc_fail ("T%d keeps sleeping in nsync_wait_n although object '%c' of its set is ready", i, oletters[cr[i].set[j]]);
		if (cr[i].dl <= mc_now_ns ()) mc_fail ("T%d keeps sleeping in nsync_wait_n although its deadline has passed", i);
	}
	/* rescue + clean-up check: touch every waiter list now that finished callers' frames are dead */
	nsync_mu_lock (&mu); h_enter (&mu, 1, "nsync_mu_lock"); flag = 1; signal_invoked (); nsync_cv_broadcast (&cv); h_leave (&mu, 1); nsync_mu_unlock (&mu);
	for (i = 0; i < 3; i++) { nsync_note_notify (notes[i]); event_done (i); }
	for (i = 0; i < 2; i++) if (nsync_counter_value (ctrs[i]) != 0) { nsync_counter_add (ctrs[i], -1); event_done (OC + i); }
	left = mc_quiesce ();
	mc_assert (left == 0, "threads 0x%x still blocked after every object was made ready", left);
	nsync_mu_lock (&mu); nsync_cv_broadcast (&cv); nsync_mu_unlock (&mu);
	for (i = 0; i < 3; i++) nsync_note_free (notes[i]);     /* asserts that no waiter is left */
	for (i = 0; i < 2; i++) nsync_counter_free (ctrs[i]);
	mc_assert (cv.waiters == NULL, "a waiter record is still on the condition variable after all calls returned");
}
/* No thread can run and the clock is about to advance: every notifier / decrementer has finished, so a caller that is
   still inside nsync_wait_n with a ready note or counter in its set is sleeping until a timer instead of returning. */
MC_ORACLE static void wn_idle (void) {
	int i, j;
	for (i = 0; i < MC_MAXF; i++) if (cr[i].active)
		for (j = 0; j < cr[i].n; j++) if (cr[i].set[j] != OV && ready_stamp[cr[i].set[j]]) {
			mc_fail ("T%d keeps sleeping in nsync_wait_n until the next timer although object '%c' of its set is ready", i, oletters[cr[i].set[j]]);
			return;
		}
}
MC_ORACLE static void wn_final (void) { h_mu_idle (&mu); h_outcome_results (); }
extern const struct mc_family fam_waitn;
const struct mc_family fam_waitn = { "waitn", wn_setup, wn_init, wn_thread, wn_observer, wn_final, wn_idle };
