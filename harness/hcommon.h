/* hcommon.h -- shared by all scenario families.  Valid C and C++ (the C++
   configuration compiles nsync, and therefore the harness, as C++11). */
#ifndef HCOMMON_H_
#define HCOMMON_H_
#include "nsync_cpp.h"
#include "platform.h"
#include "compiler.h"
#include "cputype.h"
#include "nsync.h"
#include "dll.h"
#include "sem.h"
#include "wait_internal.h"
#include "common.h"
#include "atomic.h"
#include "mc.h"

NSYNC_CPP_USING_

/* ---- program text: threads separated by '|', operations by blanks ---- */
#define H_MAXT 5
#define H_MAXOPS 6
#define H_OPLEN 16
extern char h_op[H_MAXT][H_MAXOPS][H_OPLEN];
extern int h_nops[H_MAXT];
extern int h_nthreads;
int h_parse (const char *program);   /* returns number of threads, -1 on syntax error */

/* deadlines used by scenarios (virtual clock starts at MC_T0) */
#define H_D1 (MC_T0 + 10 * MC_NS)
#define H_D2 (MC_T0 + 20 * MC_NS)
#define H_PAST (MC_T0 - 5 * MC_NS)
nsync_time h_time (int64_t ns);      /* MC_NEVER -> nsync_time_no_deadline */
int64_t h_ns (nsync_time t);

/* ---- shadow occupancy of mutexes (C01 oracle) ---- */
/* Harness level: call h_enter right after an acquire returns and h_leave right
   before the release is called; no scheduling point lies in between. */
void h_enter (nsync_mu *mu, int writer, const char *how);
void h_leave (nsync_mu *mu, int writer);
int  h_held_by_me (nsync_mu *mu);          /* 0 no, 1 reader, 2 writer */
int  h_writer_inside (nsync_mu *mu);       /* some thread is inside a write section */
void h_install_rwlock_listener (void);     /* cross-check at nsync's own acquisition points */

/* "Has this lock call itself waited?"  A call has waited iff its thread's waiter record was taken off a queue
   (by an unlocker that woke it) since h_call_begin(): that is what nsync's remove_count counts.  Counting
   futex sleeps instead would be wrong: a queued thread may be woken before it ever reaches the futex. */
void h_call_begin (void);
int  h_call_has_waited (int fiber);
int h_waiter_flagged (int fiber);
unsigned h_call_dequeues (int fiber);

/* results of threads, for outcome strings */
extern int h_res[H_MAXT][H_MAXOPS];
void h_outcome_results (void);
/* End-state rule for a mutex that nobody holds and nobody waits for (every thread has finished): the bits
   MU_DESIG_WAKER, MU_WRITER_WAITING and MU_LONG_WAIT must be clear.  Each of them, left set on an idle
   mutex, makes the next contended operation lose a wake-up by construction (unlock wakes nobody while
   MU_DESIG_WAKER is set; a reader / any locker cannot acquire and queues behind nobody while
   MU_WRITER_WAITING / MU_LONG_WAIT is set), which is the C02 violation; lock bits and the spinlock must be
   clear as well.  MU_WAITING, MU_CONDITION and MU_ALL_FALSE are recomputed by the next queueing thread and
   are not judged.  */
void h_mu_idle (nsync_mu *m);

#endif
