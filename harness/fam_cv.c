/* Family "cv": condition-variable waits against signallers / broadcasters on one
   mutex, one condition variable, one flag.

   Waiter operations  <kind><mode>[<deadline>][<note>]
     kind      C  lock; if (!flag) wait once; unlock
               W  monitor loop: lock; while (!flag && r == 0) r = wait; unlock
     mode      w  writer (nsync_mu_lock)          r  reader (nsync_mu_rlock)
               g  generic-lock entry point with wrapper functions (cv_mu == NULL path)
               n  through nsync_wait_n (&mu, lock, unlock, deadline, 1, {cv})
     deadline  d  D1 (virtual T0+10s)   p  already past   (none: no deadline)
     note      N  fresh note, notified by an 'N' operation of another thread
               x  note already notified     e  note with its own deadline D1
               c  child of a parent note whose deadline is D1
   Waker operations
     S  lock; flag=1; signal; unlock          B  same with broadcast
     S' lock; flag=1; unlock; signal          B' same with broadcast
     s  lock; signal; unlock  (flag stays 0: a wake-up that finds the condition false)
     F  lock; flag=1; unlock  (no wake-up)
     Sr / Br  rlock; signal / broadcast; runlock  (a wake-up issued inside a READER section, so
        that a writer-mode waiter is transferred to the mutex queue while readers come and go)
     N  nsync_note_notify (fresh note)
     L  lock; write section; unlock           R  rlock; read section; runlock
     @k wait (client-level) until k waiters have announced, under the mutex, that
        they are about to wait
     dm dM dc dC  call nsync_mu_debug_state / nsync_mu_debug_state_and_waiters /
        nsync_cv_debug_state / nsync_cv_debug_state_and_waiters, once with a 24-byte and once
        with a 300-byte buffer (exact-size arena blocks: a write outside them is caught by the
        runtime); the result must be NUL-terminated inside the buffer (C16).  All other
        oracles stay in force, so a debug call that changes who holds the mutex, loses a
        wake-up or deadlocks is reported by them.

   Oracles
     C01  shadow occupancy at every entry into a section, including every return
          from a wait in whatever way it ends.
     C04  accounting by the observer at quiescence, before its rescue broadcast:
          a broadcast leaves asleep no waiter that had announced itself before the
          broadcaster's critical section; for signals, if k' signals were issued
          while a waiter that is STILL asleep was already waiting, at least k'
          waits reported a wake-up (a signal swallowed by a wait that then reports
          a timeout / cancellation breaks this); reader rule for single signals.
     C05  on every return: mutex held in the entry mode (nsync_mu_is_reader agrees),
          ETIMEDOUT only at/after the deadline, ECANCELED only with the note
          notified; a wait whose deadline passed or whose note is notified is never
          asleep at quiescence.  */
#include "hcommon.h"

static nsync_mu mu;
static nsync_cv cv;
static int flag;
static int datum;
static nsync_note note_fresh, note_done, note_exp, note_parent, note_child;

#define SLOTS (H_MAXT * H_MAXOPS)
struct wrec { int seq; int state; /* 0 none, 1 announced/waiting, 2 returned */ int waited; int res; int reader; int timed; int noted; int64_t dl; nsync_note note; };
static struct wrec wr[SLOTS];
struct krec { int issued; int bcast; unsigned q; int seq[SLOTS]; };
static struct krec kr[SLOTS];
static int nkr;
static int announced;
static int wakeups_reported;   /* wait calls that returned 0 after actually waiting */
static volatile int announced_ge[SLOTS + 1];
static int uses_fresh;
static int late_waker;          /* the program's wake-up operation is S' or B' */
static int n_wake_ops;          /* S/B/S'/B'/s/Sr/Br operations in the program */
static int sdata;               /* plain client datum written right before a wake-up issued outside the critical section */

static int is_waiter (const char *o) { return (o[0] == 'C' || o[0] == 'W') && o[1] != 0 && strchr ("wrgn", o[1]) != NULL; }
static int cv_setup (const char *program) {
	int t, k, n = h_parse (program), waiters = 0, notifier = 0, fresh = 0;
	if (n < 1) return -1;
	n_wake_ops = 0; late_waker = 0;
	for (t = 0; t < n; t++) for (k = 0; k < h_nops[t]; k++) {
		const char *o = h_op[t][k];
		if (is_waiter (o)) {
			const char *p = o + 2;
			if (*p == 'd' || *p == 'p') p++;
			if (*p == 'N') { fresh = 1; p++; } else if (*p == 'x' || *p == 'e' || *p == 'c') p++;
			if (*p) return -1;
			if (o[1] == 'n' && o[2] != 0 && o[2] != 'd' && o[2] != 'p') return -1;
			if (o[1] == 'n' && o[2] != 0 && o[3] != 0) return -1;
			waiters++;
		} else if (!strcmp (o, "S") || !strcmp (o, "B") || !strcmp (o, "S'") || !strcmp (o, "B'") || !strcmp (o, "s") || !strcmp (o, "Sr") || !strcmp (o, "Br")) { n_wake_ops++; if (o[1] == '\'') late_waker = 1;
		} else if (!strcmp (o, "L") || !strcmp (o, "R") || !strcmp (o, "F")) {
		} else if (!strcmp (o, "dm") || !strcmp (o, "dM") || !strcmp (o, "dc") || !strcmp (o, "dC")) {
		} else if (!strcmp (o, "N")) notifier = 1;
		else if (o[0] == '@' && o[1] >= '1' && o[1] <= '9' && o[2] == 0) { if (o[1] - '0' > SLOTS) return -1; }
		else return -1;
	}
	if (notifier && !fresh) return -1;
	uses_fresh = fresh;
	(void) waiters;
	return n;
}

static void glock (void *v) { nsync_mu_lock ((nsync_mu *) v); }
static void gunlock (void *v) { nsync_mu_unlock ((nsync_mu *) v); }

static void cv_init (void) {
	nsync_mu_init (&mu); nsync_cv_init (&cv);
	mc_name (&mu, sizeof mu, "mu"); mc_name (&cv, sizeof cv, "cv"); mc_name (&flag, sizeof flag, "flag");
	h_install_rwlock_listener ();
	note_fresh = nsync_note_new (NULL, nsync_time_no_deadline);
	note_done = nsync_note_new (NULL, nsync_time_no_deadline); nsync_note_notify (note_done);
	note_exp = nsync_note_new (NULL, h_time (H_D1));
	note_parent = nsync_note_new (NULL, h_time (H_D1));
	note_child = nsync_note_new (note_parent, nsync_time_no_deadline);
	mc_declare_instant (H_D1);
}

/* side-effect-free equivalent of nsync_note_is_notified: the flag, or a stored expiry that has passed */
/* The deadline after which the harness KNOWS the note to be notified (its own or its parent's; C08), whatever
   expiry the library stored in it. */
MC_ORACLE static int64_t known_expiry (nsync_note n) { return (n == note_exp || n == note_child || n == note_parent) ? H_D1 : MC_NEVER; }
MC_ORACLE static int peek_notified (nsync_note n) {
	if (*(volatile uint32_t *) &n->notified != 0) return 1;
	if (known_expiry (n) <= mc_now_ns ()) return 1;
	return n->expiry_time_valid && h_ns (n->expiry_time) <= mc_now_ns ();
}
MC_ORACLE static void announce (int slot, int reader, int64_t dl, nsync_note note) {
	wr[slot].state = 1; wr[slot].reader = reader; wr[slot].timed = (dl != MC_NEVER); wr[slot].dl = dl; wr[slot].note = note; wr[slot].noted = (note != NULL);
	wr[slot].waited = 1; wr[slot].seq++;
}
MC_ORACLE static int count_announced (void) { return ++announced; }
MC_ORACLE static void returned (int slot, int res, int reader_mode, int generic) {
	struct wrec *w = &wr[slot];
	w->state = 2; w->res = res;
	if (res == 0) wakeups_reported++;
	if (res == ETIMEDOUT) {
		if (!w->timed) mc_fail ("wait without deadline returned ETIMEDOUT");
		else if (mc_now_ns () < w->dl) mc_fail ("wait returned ETIMEDOUT %lld ns before its deadline", (long long) (w->dl - mc_now_ns ()));
	} else if (res == ECANCELED) {
		if (w->note == NULL) mc_fail ("wait without note returned ECANCELED");
		else if (!peek_notified (w->note)) mc_fail ("wait returned ECANCELED but its note is not notified");
	} else if (res != 0) mc_fail ("wait returned unexpected value %d", res);
	if (!generic && nsync_mu_is_reader (&mu) != reader_mode) mc_fail ("wait returned holding the mutex in %s mode, entered in %s mode", reader_mode ? "write" : "read", reader_mode ? "read" : "write");
}
MC_ORACLE static int new_wake (int bcast) {
	int i; unsigned q = 0;
	for (i = 0; i < SLOTS; i++) { kr[nkr].seq[i] = wr[i].seq; if (wr[i].state == 1) q |= 1u << i; }
	kr[nkr].bcast = bcast; kr[nkr].q = q; kr[nkr].issued = 0;
	return nkr++;
}
MC_ORACLE static void wake_issued (int k) { kr[k].issued = 1; }

static void write_section (void) { int v; mc_point (); v = datum; datum = v + 1; }
static void read_section (void) { int v1 = datum, v2; mc_point (); v2 = datum; mc_assert (v1 == v2, "reader saw the datum change inside its read section"); }

MC_ORACLE static int sole_late_waker (void) { return n_wake_ops == 1 && nkr == 1 && late_waker; }
static int do_wait (int slot, const char *o) {
	int mode = o[1], reader = (mode == 'r'), r = 0, loop = (o[0] == 'W');
	const char *p = o + 2;
	int64_t dl = MC_NEVER; nsync_note note = NULL;
	if (*p == 'd') { dl = H_D1; p++; } else if (*p == 'p') { dl = H_PAST; p++; }
	if (*p == 'N') note = note_fresh; else if (*p == 'x') note = note_done; else if (*p == 'e') note = note_exp; else if (*p == 'c') note = note_child;
	if (reader) { nsync_mu_rlock (&mu); h_enter (&mu, 0, "nsync_mu_rlock"); }
	else { nsync_mu_lock (&mu); h_enter (&mu, 1, "nsync_mu_lock"); }
	while (!flag && r == 0) {
		int c;
		announce (slot, reader, dl, note);
		c = count_announced ();
		mc_flag_set (&announced_ge[c], 1);
		h_leave (&mu, !reader);
		if (mode == 'w' || mode == 'r') {
			r = nsync_cv_wait_with_deadline (&cv, &mu, h_time (dl), note);
		} else if (mode == 'g') {
			r = nsync_cv_wait_with_deadline_generic (&cv, &mu, &glock, &gunlock, h_time (dl), note);
		} else {
			struct nsync_waitable_s w; struct nsync_waitable_s *pw = &w;
			w.v = &cv; w.funcs = &nsync_cv_waitable_funcs;
			r = nsync_wait_n (&mu, &glock, &gunlock, h_time (dl), 1, &pw);
			r = (r == 1) ? ETIMEDOUT : 0;
		}
		h_enter (&mu, !reader, "return from a condition-variable wait");
		returned (slot, r, reader, mode == 'g' || mode == 'n');
		/* C03: "a signal [happens] before the woken waiter's return".  If this wait reports a wake-up and
		   the program's only wake-up is one issued after its critical section, what the waker wrote just
		   before issuing it must be visible here (a plain read, judged by the happens-before monitor). */
		if (r == 0 && sole_late_waker ()) mc_assert (sdata == 1, "datum written before the wake-up is not visible to the woken waiter");
		if (!loop) break;
	}
	if (reader) read_section (); else write_section ();
	if (reader) { h_leave (&mu, 0); nsync_mu_runlock (&mu); } else { h_leave (&mu, 1); nsync_mu_unlock (&mu); }
	return r;
}

MC_ORACLE static void check_buf (const char *buf, int n, const char *ret) {
	int i;
	if (ret != buf) { mc_fail ("debug-state function did not return its buffer"); return; }
	for (i = 0; i < n; i++) if (buf[i] == 0) return;
	mc_fail ("debug-state function left a %d-byte buffer without terminating NUL", n);
}
static void do_debug (const char *o) {
	static const int sizes[2] = { 24, 300 };
	int i;
	for (i = 0; i < 2; i++) {
		int n = sizes[i];
		char *buf = (char *) mc_malloc (n), *r;
		memset (buf, 'x', n);
		if (o[1] == 'm') r = nsync_mu_debug_state (&mu, buf, n);
		else if (o[1] == 'M') r = nsync_mu_debug_state_and_waiters (&mu, buf, n);
		else if (o[1] == 'c') r = nsync_cv_debug_state (&cv, buf, n);
		else r = nsync_cv_debug_state_and_waiters (&cv, buf, n);
		check_buf (buf, n, r);
	}
}
static void cv_thread (int me) {
	int k;
	for (k = 0; k < h_nops[me]; k++) {
		const char *o = h_op[me][k];
		int r = 0;
		if (is_waiter (o)) r = do_wait (me * H_MAXOPS + k, o);
		else if ((o[0] == 'S' || o[0] == 'B') && o[1] == 'r') {
			int w;
			nsync_mu_rlock (&mu); h_enter (&mu, 0, "nsync_mu_rlock");
			w = new_wake (o[0] == 'B');
			mc_point ();
			if (o[0] == 'B') nsync_cv_broadcast (&cv); else nsync_cv_signal (&cv);
			wake_issued (w);
			h_leave (&mu, 0); nsync_mu_runlock (&mu);
		} else if (o[0] == 'F') {
			nsync_mu_lock (&mu); h_enter (&mu, 1, "nsync_mu_lock"); flag = 1; h_leave (&mu, 1); nsync_mu_unlock (&mu);
		} else if (o[0] == 'S' || o[0] == 'B' || o[0] == 's') {
			int b = (o[0] == 'B'), after = (o[1] == '\''), w;
			nsync_mu_lock (&mu); h_enter (&mu, 1, "nsync_mu_lock");
			w = new_wake (b);
			if (o[0] != 's') flag = 1;
			mc_point ();
			if (!after) { if (b) nsync_cv_broadcast (&cv); else nsync_cv_signal (&cv); wake_issued (w); }
			h_leave (&mu, 1); nsync_mu_unlock (&mu);
			if (after) { sdata = 1; if (b) nsync_cv_broadcast (&cv); else nsync_cv_signal (&cv); wake_issued (w); }
		} else if (o[0] == 'd') do_debug (o);
		else if (o[0] == 'N') nsync_note_notify (note_fresh);
		else if (o[0] == 'L') { nsync_mu_lock (&mu); h_enter (&mu, 1, "nsync_mu_lock"); write_section (); h_leave (&mu, 1); nsync_mu_unlock (&mu); }
		else if (o[0] == 'R') { nsync_mu_rlock (&mu); h_enter (&mu, 0, "nsync_mu_rlock"); read_section (); h_leave (&mu, 0); nsync_mu_runlock (&mu); }
		else if (o[0] == '@') mc_await (&announced_ge[o[1] - '0']);
		h_res[me][k] = r;
	}
}

MC_ORACLE static void accounting (void) {
	unsigned asleep = 0; int i, woken = 0, kprime = 0, nsig = 0, nb = 0, reader_woken = 0;
	for (i = 0; i < SLOTS; i++) {
		if (wr[i].state == 1) {
			asleep |= 1u << i;
			/* C05: needs no further wake-up once the deadline passed / the note is notified */
			if (wr[i].timed && wr[i].dl <= mc_now_ns ()) mc_fail ("a wait whose deadline has passed is still asleep with nothing left to wake it (thread %d)", i / H_MAXOPS);
			if (wr[i].note != NULL && peek_notified (wr[i].note)) mc_fail ("a wait whose cancel note is notified is still asleep with nothing left to wake it (thread %d)", i / H_MAXOPS);
		}
		if (wr[i].state == 2 && wr[i].waited && wr[i].res == 0 && wr[i].reader) reader_woken++;
	}
	woken = wakeups_reported;
	for (i = 0; i < nkr; i++) if (kr[i].issued) {
		/* only wait CALLS that were in progress at the snapshot and are still asleep count */
		int j; for (j = 0; j < SLOTS; j++) if (kr[i].seq[j] != wr[j].seq) kr[i].q &= ~(1u << j);
		if (kr[i].bcast) {
			nb++;
			if (kr[i].q & asleep) mc_fail ("lost wake-up: nsync_cv_broadcast left asleep a thread that was waiting before the broadcaster's critical section (waiter mask 0x%x)", kr[i].q & asleep);
		} else {
			nsig++;
			if (kr[i].q & asleep) kprime++;
		}
	}
	if (woken < kprime)
		mc_fail ("lost or swallowed wake-up: %d nsync_cv_signal call(s) were issued while a still-sleeping thread was already waiting, but only %d wait(s) reported a wake-up", kprime, woken);
	if (nsig == 1 && nb == 0 && reader_woken > 0) {
		for (i = 0; i < nkr; i++) if (kr[i].issued && !kr[i].bcast) {
			int j;
			for (j = 0; j < SLOTS; j++) if ((kr[i].q & asleep & (1u << j)) && wr[j].reader)
				mc_fail ("nsync_cv_signal woke a reader but left another waiting reader asleep (thread %d)", j / H_MAXOPS);
		}
	}
}

MC_ORACLE static void plain_lockers_done (void) {
	int t, k;
	for (t = 0; t < h_nthreads; t++) if (!mc_fiber_done (t)) {
		int waiting = 0;
		for (k = 0; k < H_MAXOPS; k++) if (wr[t * H_MAXOPS + k].state == 1) waiting = 1;
		if (!waiting) mc_fail ("T%d is blocked for ever in an operation that is not a condition-variable wait: nobody is left to wake it", t);
	}
}
static void cv_observer (void) {
	unsigned left;
	plain_lockers_done ();
	accounting ();
	/* rescue: everything still waiting is released so that the execution can end */
	nsync_mu_lock (&mu); h_enter (&mu, 1, "nsync_mu_lock");
	flag = 1;
	nsync_cv_broadcast (&cv);
	h_leave (&mu, 1); nsync_mu_unlock (&mu);
	nsync_note_notify (note_fresh);
	left = mc_quiesce ();
	mc_assert (left == 0, "threads 0x%x still blocked after the rescue broadcast", left);
}
MC_ORACLE static void cv_final (void) { h_mu_idle (&mu); h_outcome_results (); }
extern const struct mc_family fam_cv;
const struct mc_family fam_cv = { "cv", cv_setup, cv_init, cv_thread, cv_observer, cv_final };
