/* Family "toy": self-tests of the ENGINE (not of nsync).  Each program is a tiny scenario with a
   known verdict; lib/selftest.py checks that the engine reports exactly that verdict, so that a
   silent oracle (a monitor that never fires) or an unfair scheduler rule is noticed.
     race        two unsynchronised plain writes                 -> data race with --hb
     norace      the same ordered by mc_flag_set / mc_await      -> clean with --hb
     relacq      ordered by an nsync-style release store / acquire load   -> clean with --hb
     relaxed     the same with a relaxed store                   -> data race with --hb
     uaf         access to a freed arena block                   -> liveness violation
     deadstack   write into the frame of a function that returned-> liveness violation
     overrun     write one byte past an arena block              -> liveness violation
     deadlock    two threads await each other                    -> deadlock
     lostwake    check-then-sleep on a futex word the waker forgets to change -> lost wake-up in SOME schedule
     spin        a thread spins with nsync_spin_delay_ on a flag set by another -> terminates (park rule)
     pollers     two threads poll by taking/releasing a spinlock, a third sets the flag -> terminates
     cycle       retry loop with a stale expected value and no yield, nobody else runnable -> non-progress cycle
     rawspin     raw spin on a flag that a still-runnable thread will set -> terminates (unfair cycles are not alarms)
     midpost     a post that lands in the middle of a spin iteration which then consumes it: not a no-op iteration
     stalepost   a wait loop like nsync's (timed semaphore wait, then a spin delay while "still waiting") that is
                 handed a stale post: the iteration has no net effect on memory, yet it must not be parked --
                 the next one sleeps to its deadline and ends the loop   -> terminates
     futexconf   the futex conformance cases on the model       -> outcome text compared with the real kernel  */
#include "hcommon.h"
#include <stdarg.h>

static char which[16];
static int x, y;
static nsync_atomic_uint32_ aflag, lockw;
static volatile int f1, f2;
static int *heapobj;
static int *volatile leaked;
static int futex_word, plain_flag;

static int toy_setup (const char *program) {
	static const char *const known[] = { "race", "norace", "relacq", "relaxed", "uaf", "deadstack", "overrun", "deadlock", "lostwake", "spin", "pollers", "stalepost", "futexconf", "cycle", "rawspin", "midpost", NULL };
	int i;
	for (i = 0; known[i]; i++) if (!strcmp (program, known[i])) { snprintf (which, sizeof which, "%s", program); h_parse ("x"); return !strcmp (program, "pollers") || !strcmp (program, "futexconf") ? 3 : 2; }
	return -1;
}
static void toy_init (void) { heapobj = (int *) mc_malloc (16); }
static void leak_local (void) { int local = 7; leaked = &local; mc_point (); (void) local; }

/* ---- futex conformance on the model ---- */
static volatile int fcflags[16];
static char fcout[3][1024];
#define FC_NOW(ts) clock_gettime (CLOCK_REALTIME, (ts))
#define FC_SET(i) mc_flag_set (&fcflags[i], 1)
#define FC_AWAIT(i) mc_await (&fcflags[i])
#define FC_SLEEPING(t) do { while (!mc_fiber_asleep (t)) mc_yield (); } while (0)
MC_ORACLE static void fc_append (int t, const char *fmt, ...) { va_list ap; size_t l = strlen (fcout[t]); va_start (ap, fmt); vsnprintf (fcout[t] + l, sizeof fcout[t] - l, fmt, ap); va_end (ap); }
#define FC_OUT(...) fc_append (mc_self (), __VA_ARGS__)
#include "../seq/futex_cases.h"

static void toy_thread (int me) {
	if (!strcmp (which, "race")) { mc_point (); x = me + 1; }
	else if (!strcmp (which, "norace")) { if (me == 0) { x = 1; mc_flag_set (&f1, 1); } else { mc_await (&f1); mc_assert (x == 1, "x not visible"); } }
	else if (!strcmp (which, "relacq") || !strcmp (which, "relaxed")) {
		if (me == 0) { x = 1; if (which[3] == 'a' && which[4] == 'c') ATM_STORE_REL (&aflag, 1); else ATM_STORE (&aflag, 1); }
		else { if (ATM_LOAD_ACQ (&aflag) != 0) mc_assert (x == 1, "x not visible"); }
	}
	else if (!strcmp (which, "uaf")) { if (me == 0) { mc_free (heapobj); mc_flag_set (&f1, 1); } else { mc_await (&f1); y = heapobj[1]; mc_assert (y != 12345, "unreachable"); } }
	else if (!strcmp (which, "overrun")) { if (me == 0) ((char *) heapobj)[16] = 1; }
	else if (!strcmp (which, "deadstack")) { if (me == 0) { leak_local (); mc_flag_set (&f1, 1); mc_point (); mc_point (); } else { mc_await (&f1); *leaked = 9; } }
	else if (!strcmp (which, "deadlock")) { if (me == 0) { mc_await (&f1); mc_flag_set (&f2, 1); } else { mc_await (&f2); mc_flag_set (&f1, 1); } }
	else if (!strcmp (which, "lostwake")) {
		if (me == 0) { if (!plain_flag) syscall (SYS_futex, &futex_word, FUTEX_WAIT | FUTEX_PRIVATE_FLAG, 0, NULL, NULL, 0); }
		else { plain_flag = 1; syscall (SYS_futex, &futex_word, FUTEX_WAKE | FUTEX_PRIVATE_FLAG, 1, NULL, NULL, 0); }
	}
	else if (!strcmp (which, "cycle")) {
		/* a retry loop with a stale expected value and no yield: once the other thread has changed the word and
		   finished, the loop can never succeed -> non-progress cycle (the state recurs with nobody else runnable) */
		if (me == 0) { uint32_t old = ATM_LOAD (&lockw); while (!ATM_CAS (&lockw, old, old + 2)) { } }
		else { ATM_STORE_REL (&lockw, 1); }
	}
	else if (!strcmp (which, "rawspin")) {
		/* a raw spin (no yield) on a flag that another, still runnable thread will set: the state recurs too, but
		   a fair scheduler leaves the cycle -> clean */
		if (me == 0) { while (ATM_LOAD_ACQ (&aflag) == 0) { } }
		else { mc_point (); ATM_STORE_REL (&aflag, 1); }
	}
	else if (!strcmp (which, "midpost")) {
		/* a waiter that consumes posts and stops when it finds none (like a timed semaphore wait whose deadline
		   has passed); the poster's store lands in the MIDDLE of an iteration, which consumes it: memory at the
		   end of the iteration equals memory at its start, yet the next iteration behaves differently */
		if (me == 0) { unsigned a = 0; for (;;) { uint32_t v = ATM_LOAD (&lockw); if (v == 0 && ATM_LOAD (&aflag) != 0) break; if (v != 0) ATM_STORE_REL (&lockw, 0); a = nsync_spin_delay_ (a); } }
		else { ATM_STORE_REL (&aflag, 1); ATM_STORE_REL (&lockw, 1); }
	}
	else if (!strcmp (which, "spin")) {
		if (me == 0) { unsigned a = 0; while (ATM_LOAD_ACQ (&aflag) == 0) a = nsync_spin_delay_ (a); }
		else { mc_point (); mc_point (); ATM_STORE_REL (&aflag, 1); }
	}
	else if (!strcmp (which, "pollers")) {
		if (me < 2) { unsigned a = 0; for (;;) { uint32_t v; nsync_spin_test_and_set_ (&lockw, 1, 1, 0); v = ATM_LOAD (&aflag); ATM_STORE_REL (&lockw, 0); if (v) break; a = nsync_spin_delay_ (a); } }
		else { mc_point (); ATM_STORE_REL (&aflag, 1); }
	}
	else if (!strcmp (which, "stalepost")) {
		static nsync_semaphore sem; static int inited;
		if (me == 0) {
			int outcome = 0; unsigned a = 0;
			nsync_mu_semaphore_init (&sem); inited = 1; mc_flag_set (&f1, 1);
			ATM_STORE (&aflag, 1);                  /* "still waiting": nobody will ever clear it */
			while (ATM_LOAD_ACQ (&aflag) != 0 && outcome == 0) {
				outcome = nsync_mu_semaphore_p_with_deadline (&sem, h_time (H_D1));
				if (ATM_LOAD (&aflag) != 0 && outcome == 0) a = nsync_spin_delay_ (a);
			}
			mc_assert (outcome == ETIMEDOUT, "loop ended without the timeout");
		} else { mc_await (&f1); nsync_mu_semaphore_v (&sem); (void) inited; }
	}
	else if (!strcmp (which, "futexconf")) fc_run (me);
}
MC_ORACLE static void toy_final (void) {
	if (!strcmp (which, "futexconf")) { char *p; int t; for (t = 0; t < 3; t++) for (p = fcout[t]; *p; p++) if (*p == '\n') *p = ';'; mc_outcome ("%s%s%s", fcout[0], fcout[1], fcout[2]); }
	else mc_outcome ("done");
}
extern const struct mc_family fam_toy;
const struct mc_family fam_toy = { "toy", toy_setup, toy_init, toy_thread, NULL, toy_final };
