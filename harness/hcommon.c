#include "hcommon.h"

char h_op[H_MAXT][H_MAXOPS][H_OPLEN];
int h_nops[H_MAXT];
int h_nthreads;
int h_res[H_MAXT][H_MAXOPS];

int h_parse (const char *p) {
	int t = 0, k = 0, n = 0;
	memset (h_op, 0, sizeof h_op); memset (h_nops, 0, sizeof h_nops);
	for (;; p++) {
		if (*p == ' ' || *p == '|' || *p == 0) {
			if (n > 0) { k++; n = 0; }
			if (*p == '|' || *p == 0) {
				h_nops[t] = k; t++; k = 0;
				if (*p == 0) break;
				if (t >= H_MAXT) return -1;
			}
		} else {
			if (k >= H_MAXOPS || n >= H_OPLEN - 1) return -1;
			h_op[t][k][n++] = *p;
		}
	}
	h_nthreads = t;
	return t;
}

nsync_time h_time (int64_t ns) {
	if (ns == MC_NEVER) return nsync_time_no_deadline;
	return nsync_time_s_ns ((time_t)(ns / MC_NS), (unsigned)(ns % MC_NS));
}
MC_ORACLE int64_t h_ns (nsync_time t) {
	if (nsync_time_cmp (t, nsync_time_no_deadline) == 0) return MC_NEVER;
	return (int64_t)NSYNC_TIME_SEC (t) * MC_NS + NSYNC_TIME_NSEC (t);
}

/* ---- shadow occupancy ---- */
#define H_MUS 24
struct occ { void *mu; int w, r; int who[MC_MAXF]; };
static struct occ occ_h[H_MUS];   /* harness level */
static struct occ occ_l[H_MUS];   /* library level (annotations) */

MC_ORACLE static struct occ *occ_get (struct occ *tab, void *mu) {
	int i;
	for (i = 0; i < H_MUS; i++) { if (tab[i].mu == mu) return &tab[i]; if (tab[i].mu == NULL) { tab[i].mu = mu; return &tab[i]; } }
	mc_fail ("harness: too many mutexes tracked");
	return &tab[0];
}
MC_ORACLE void h_enter (nsync_mu *mu, int writer, const char *how) {
	struct occ *o = occ_get (occ_h, mu); int me = mc_self ();
	if (writer) {
		if (o->w != 0 || o->r != 0) mc_fail ("mutual exclusion broken: T%d holds the mutex as writer after %s while %d writer(s) and %d reader(s) are inside", me, how, o->w, o->r);
		o->w++; if (me >= 0) o->who[me] = 2;
	} else {
		if (o->w != 0) mc_fail ("mutual exclusion broken: T%d holds the mutex as reader after %s while a writer is inside", me, how);
		o->r++; if (me >= 0) o->who[me] = 1;
	}
}
MC_ORACLE void h_leave (nsync_mu *mu, int writer) {
	struct occ *o = occ_get (occ_h, mu); int me = mc_self ();
	if (writer) o->w--; else o->r--;
	if (me >= 0) o->who[me] = 0;
}
MC_ORACLE int h_held_by_me (nsync_mu *mu) { struct occ *o = occ_get (occ_h, mu); int me = mc_self (); return me >= 0 ? o->who[me] : 0; }
MC_ORACLE int h_writer_inside (nsync_mu *mu) { struct occ *o = occ_get (occ_h, mu); return o->w; }

MC_ORACLE static void listener (void *mu, int acquired, int is_writer) {
	struct occ *o = occ_get (occ_l, mu);
	if (acquired) {
		if (is_writer) {
			if (o->w != 0 || o->r != 0) mc_fail ("mutual exclusion broken inside nsync: T%d acquired mutex %p as writer while %d writer(s) / %d reader(s) hold it", mc_self (), mu, o->w, o->r);
			o->w++;
		} else {
			if (o->w != 0) mc_fail ("mutual exclusion broken inside nsync: T%d acquired mutex %p as reader while a writer holds it", mc_self (), mu);
			o->r++;
		}
	} else {
		if (is_writer) o->w--; else o->r--;
	}
}
void h_install_rwlock_listener (void) { mc_rwlock_listener = &listener; }

MC_ORACLE void h_mu_idle (nsync_mu *m) {
	uint32_t w = *(volatile uint32_t *) &m->word;
	uint32_t bad = w & (MU_WLOCK | MU_SPINLOCK | MU_DESIG_WAKER | MU_WRITER_WAITING | MU_LONG_WAIT | MU_RLOCK_FIELD);
	if (bad != 0) mc_fail ("every thread has finished but the mutex word is 0x%x: stale%s%s%s%s on an idle mutex (the next contended operation loses a wake-up)", w,
		(bad & MU_DESIG_WAKER) ? " MU_DESIG_WAKER" : "", (bad & MU_WRITER_WAITING) ? " MU_WRITER_WAITING" : "", (bad & MU_LONG_WAIT) ? " MU_LONG_WAIT" : "",
		(bad & (MU_WLOCK | MU_SPINLOCK | MU_RLOCK_FIELD)) ? " lock bits" : "");
	else if (m->waiters != NULL) mc_fail ("every thread has finished but the mutex still has a waiter queue");
}
MC_ORACLE void h_outcome_results (void) {
	int t, k;
	for (t = 0; t < h_nthreads; t++) {
		if (t) mc_outcome ("|");
		for (k = 0; k < h_nops[t]; k++) mc_outcome ("%s%d", k ? "," : "", h_res[t][k]);
	}
}

static uint32_t rc_at_begin[MC_MAXF];
/* A thread that has no waiter record when its call begins gets one during the call, possibly from the free
   pool with a remove_count left by its previous owner: the baseline is then taken when the record is adopted. */
MC_ORACLE static void tls_adopted (int fiber, void *w) { rc_at_begin[fiber] = *(volatile uint32_t *) &((waiter *) w)->remove_count; }
MC_ORACLE void h_call_begin (void) {
	int me = mc_self (); waiter *w;
	if (me < 0) return;
	mc_tls_listener = &tls_adopted;
	w = (waiter *) mc_tls_waiter_of (me);
	rc_at_begin[me] = w != NULL ? *(volatile uint32_t *) &w->remove_count : 0;
}
/* how many times the fiber's waiter record was taken off a queue since h_call_begin() */
MC_ORACLE unsigned h_call_dequeues (int fiber) {
	waiter *w = (waiter *) mc_tls_waiter_of (fiber);
	if (w == NULL) return 0;
	return *(volatile uint32_t *) &w->remove_count - rc_at_begin[fiber];
}
MC_ORACLE int h_call_has_waited (int fiber) { return h_call_dequeues (fiber) != 0; }
/* is the fiber's waiter record marked as waiting (queued, or dequeued by a waker that has not yet cleared the flag) */
MC_ORACLE int h_waiter_flagged (int fiber) {
	waiter *w = (waiter *) mc_tls_waiter_of (fiber);
	return w != NULL && *(volatile uint32_t *) &w->nw.waiting != 0;
}
