/* Family "mu": plain locking.  Operations per thread:
     L  lock; critical section (writes the shared datum); unlock
     R  rlock; critical section (reads it); runlock
     T  trylock; if acquired: write section; unlock      (must never block)
     Y  rtrylock; if acquired: read section; runlock     (must never block)
     X  the thread exits and a fresh thread takes over the fiber (its waiter
        record goes through the per-thread destructor and the free pool)
   Oracles: shadow occupancy (C01), progress / no lost wake-up by the
   runtime's terminal-state rule (C02), try-locks never block (C02).  */
#include "hcommon.h"

static nsync_mu mu;
static int datum;            /* plain shared variable: what the race monitor watches */
static int writes_done;      /* oracle: number of completed write sections */

static int mu_setup (const char *program) {
	int t, k, n = h_parse (program);
	if (n < 1) return -1;
	for (t = 0; t < n; t++) for (k = 0; k < h_nops[t]; k++)
		if (strlen (h_op[t][k]) != 1 || strchr ("LRTYX", h_op[t][k][0]) == NULL) return -1;
	return n;
}
static void mu_init (void) {
	nsync_mu_init (&mu);
	mc_name (&mu, sizeof mu, "mu");
	mc_name (&datum, sizeof datum, "datum");
	h_install_rwlock_listener ();
}
MC_ORACLE static void count_write (void) { writes_done++; }
MC_ORACLE static int writes (void) { return writes_done; }

static void write_section (void) {
	int v;
	mc_point ();
	v = datum;
	mc_point ();
	datum = v + 1;
	count_write ();
}
static void read_section (void) {
	int v1, v2;
	v1 = datum;
	mc_point ();
	v2 = datum;
	mc_assert (v1 == v2, "reader saw the datum change inside its read section (%d -> %d)", v1, v2);
}
static void mu_thread (int me) {
	int k;
	for (k = 0; k < h_nops[me]; k++) {
		int r = 1;
		switch (h_op[me][k][0]) {
		case 'L':
			nsync_mu_lock (&mu); h_enter (&mu, 1, "nsync_mu_lock");
			write_section ();
			h_leave (&mu, 1); nsync_mu_unlock (&mu);
			break;
		case 'R':
			nsync_mu_rlock (&mu); h_enter (&mu, 0, "nsync_mu_rlock");
			read_section ();
			h_leave (&mu, 0); nsync_mu_runlock (&mu);
			break;
		case 'T':
			mc_blocks_reset ();
			r = nsync_mu_trylock (&mu);
			mc_assert (mc_blocks () == 0, "nsync_mu_trylock blocked (%u times)", mc_blocks ());
			if (r) { h_enter (&mu, 1, "nsync_mu_trylock"); write_section (); h_leave (&mu, 1); nsync_mu_unlock (&mu); }
			break;
		case 'Y':
			mc_blocks_reset ();
			r = nsync_mu_rtrylock (&mu);
			mc_assert (mc_blocks () == 0, "nsync_mu_rtrylock blocked (%u times)", mc_blocks ());
			if (r) { h_enter (&mu, 0, "nsync_mu_rtrylock"); read_section (); h_leave (&mu, 0); nsync_mu_runlock (&mu); }
			break;
		case 'X':
			mc_thread_recycle ();
			break;
		}
		h_res[me][k] = r;
	}
}
MC_ORACLE static void mu_final (void) {
	mc_assert (datum == writes (), "lost update: %d write sections completed but the datum is %d", writes (), datum);
	h_mu_idle (&mu);
	h_outcome_results ();
}
extern const struct mc_family fam_mu;
const struct mc_family fam_mu = { "mu", mu_setup, mu_init, mu_thread, NULL, mu_final };
