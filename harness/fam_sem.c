/* Family "sem": the per-thread semaphore alone (C12).  Thread 0 is the waiter,
   the others post.  Operations:
     waiter:  P      untimed wait
              Pd     timed wait, deadline D1
              Pp     timed wait, deadline already past
              Pdr    timed wait (D1); if it times out, an untimed wait follows,
                     which must find the post (the count is intact after a timeout)
              Ppr    same with a past deadline
     poster:  V      post
   The futex wait may be made to return early by injected EINTR / EAGAIN / early
   ETIMEDOUT (each costs one unit of the E budget, like a clock tick).
   Legal programs: the number of posts is at least the number of waits (a timed
   wait may consume a post as well), so every wait must return.  */
#include "hcommon.h"

static nsync_semaphore sem;
static int posts_invoked, successes;

static int fsem_setup (const char *program) {
	int t, k, n = h_parse (program), need = 0, posts = 0;
	if (n < 1) return -1;
	for (k = 0; k < h_nops[0]; k++) {
		const char *o = h_op[0][k];
		/* any wait may consume a post (a timed one too), so every wait needs one of its own */
		if (!strcmp (o, "P") || !strcmp (o, "Pdr") || !strcmp (o, "Ppr") || !strcmp (o, "Pd") || !strcmp (o, "Pp")) need++;
		else return -1;
	}
	for (t = 1; t < n; t++) for (k = 0; k < h_nops[t]; k++) { if (strcmp (h_op[t][k], "V")) return -1; posts++; }
	if (posts < need) return -1;
	return n;
}
static void fsem_init (void) {
	nsync_mu_semaphore_init (&sem);
	mc_name (&sem, 4, "sem");
	mc_fault_mask (MC_FAULT_EINTR | MC_FAULT_EAGAIN | MC_FAULT_EARLY_TIMEOUT);
}
MC_ORACLE static void note_post (void) { posts_invoked++; }
MC_ORACLE static void note_success (const char *what) {
	successes++;
	if (successes > posts_invoked) mc_fail ("%s returned success without a post: %d successes, %d posts invoked", what, successes, posts_invoked);
}
MC_ORACLE static void check_timeout (int64_t dl) {
	if (mc_now_ns () < dl) mc_fail ("timed wait reported ETIMEDOUT %lld ns before its deadline", (long long)(dl - mc_now_ns ()));
}
static void fsem_thread (int me) {
	int k;
	for (k = 0; k < h_nops[me]; k++) {
		const char *o = h_op[me][k];
		int r = 0;
		if (o[0] == 'V') {
			note_post ();
			nsync_mu_semaphore_v (&sem);
		} else if (o[1] == 0) {
			nsync_mu_semaphore_p (&sem);
			note_success ("nsync_mu_semaphore_p");
		} else {
			int64_t dl = o[1] == 'd' ? H_D1 : H_PAST;
			r = nsync_mu_semaphore_p_with_deadline (&sem, h_time (dl));
			if (r == 0) note_success ("nsync_mu_semaphore_p_with_deadline");
			else {
				mc_assert (r == ETIMEDOUT, "nsync_mu_semaphore_p_with_deadline returned %d", r);
				check_timeout (dl);
				if (o[2] == 'r') { nsync_mu_semaphore_p (&sem); note_success ("nsync_mu_semaphore_p after a timed-out wait"); }
			}
		}
		h_res[me][k] = r;
	}
}
MC_ORACLE static void fsem_final (void) { h_outcome_results (); }
extern const struct mc_family fam_sem;
const struct mc_family fam_sem = { "sem", fsem_setup, fsem_init, fsem_thread, NULL, fsem_final };
