#!/bin/bash
# setup.sh -- run once after a fresh restore (offline).  Builds the runtime and every
# configuration of the code under test from /repo, then runs the engine's self-tests
# (determinism of replay, the spin-park rule, detection of seeded engine-level bugs) and
# compares the futex model with the real kernel.
set -e
cd "$(dirname "$0")"
for c in c-futex c-binsem c11-futex cpp-futex; do ./build.sh $c >/dev/null; done
./check --selftest
