/* seq_deadline.c -- C15: every timed entry point x a boundary set of deadlines x awaited-event
   state, on the REAL platform layer (futex semaphore, real clock, real kernel).  Linked against
   the nsync sources compiled without any hook (C build) or as the nsync_cpp configuration (C++).
   Each case runs in a forked child so that a crash or hang of one case is a verdict, not the
   end of the run.  usage: seq_deadline <d_ms> [case-filter]
   Output: one line per failing case and a JSON summary.  */
#include "nsync_cpp.h"
#include "platform.h"
#include "compiler.h"
#include "cputype.h"
#include "nsync.h"
#include <stdio.h>
#include <stdlib.h>
#include <string.h>
#include <signal.h>
#include <unistd.h>
#include <errno.h>
#include <sys/wait.h>
#include <pthread.h>
NSYNC_CPP_USING_

static int D_MS = 50;
enum { DL_ZERO, DL_P1NS, DL_M1NS, DL_P1S, DL_M1S, DL_NEG31, DL_MIN64, DL_NOW_MINUS, DL_NOW, DL_NOW_PLUS, DL_MAXM1, DL_NONE, DL_N };
static const char *const dl_name[] = { "zero", "+1ns", "-1ns", "+1s", "-1s", "-2^31s", "INT64_MIN s", "now-d", "now", "now+d", "no_deadline-1ns", "no_deadline" };
enum { EP_CV, EP_CV_NOTE, EP_CV_READER, EP_MU_FALSE, EP_MU_TRUE, EP_MU_NOTE, EP_NOTE_WAIT, EP_COUNTER_WAIT, EP_WAITN_NOTE, EP_WAITN_COUNTER, EP_WAITN_CV, EP_WAITN_5, EP_NOTE_OWN, EP_N };
static const char *const ep_name[] = { "cv_wait", "cv_wait+note", "cv_wait(reader)", "mu_wait(cond false)", "mu_wait(cond true)", "mu_wait+note", "note_wait", "counter_wait", "wait_n{note}", "wait_n{counter}", "wait_n{cv}", "wait_n{5 objects}", "note_new(deadline)" };
enum { EV_NEVER, EV_ALREADY, EV_LATER, EV_N };
static const char *const ev_name[] = { "never", "already happened", "happens at +d/2" };

static nsync_time deadline_of (int k) {
	nsync_time now = nsync_time_now ();
	switch (k) {
	case DL_ZERO: return nsync_time_zero;
	case DL_P1NS: return nsync_time_s_ns (0, 1);
	case DL_M1NS: return nsync_time_s_ns (-1, 999999999);
	case DL_P1S: return nsync_time_s_ns (1, 0);
	case DL_M1S: return nsync_time_s_ns (-1, 0);
	case DL_NEG31: return nsync_time_s_ns ((time_t) -2147483648LL, 0);
	case DL_MIN64: return nsync_time_s_ns ((time_t) INT64_MIN, 0);
	case DL_NOW_MINUS: return nsync_time_sub (now, nsync_time_ms (D_MS));
	case DL_NOW: return now;
	case DL_NOW_PLUS: return nsync_time_add (now, nsync_time_ms (D_MS));
	case DL_MAXM1: return nsync_time_s_ns (NSYNC_TIME_SEC (nsync_time_no_deadline), 999999998);
	default: return nsync_time_no_deadline;
	}
}
static int dl_is_past (int k) { return k <= DL_NOW; }        /* expired when the call is made */
static int dl_is_far (int k) { return k == DL_MAXM1 || k == DL_NONE; }

static nsync_mu mu; static nsync_cv cv; static int flag;
static nsync_note note, notes[3]; static nsync_counter ctr, ctr2;
static int ev_kind;
static nsync_time event_time, used_deadline;   /* when the late event was actually made; the deadline the case used */
static volatile int event_made, event_begun;
static nsync_note own_parent;     /* EP_NOTE_OWN: the note under test is created with the deadline itself, under this parent */
static int cond (const void *v) { return *(const int *) v != 0; }
static void lk (void *m) { nsync_mu_lock ((nsync_mu *) m); }
static void ulk (void *m) { nsync_mu_unlock ((nsync_mu *) m); }

static void make_event (int ep) {
	switch (ep) {
	case EP_CV: case EP_CV_READER: case EP_MU_FALSE: case EP_WAITN_CV:
		nsync_mu_lock (&mu); flag = 1; nsync_cv_broadcast (&cv); nsync_mu_unlock (&mu); break;
	case EP_CV_NOTE: case EP_MU_NOTE: case EP_NOTE_WAIT: case EP_WAITN_NOTE: case EP_WAITN_5: case EP_NOTE_OWN:
		event_begun = 1; nsync_note_notify (note); break;
	case EP_COUNTER_WAIT: case EP_WAITN_COUNTER:
		nsync_counter_add (ctr, -1); break;
	}
}
static void *later (void *v) {
	int ep = (int) (intptr_t) v;
	nsync_time_sleep (nsync_time_ms (D_MS / 2));
	make_event (ep);
	event_time = nsync_time_now ();
	event_made = 1;
	return NULL;
}
/* returns 0 = event/success result, 1 = timeout result, 2 = cancelled */
static int run_case (int ep, int dlk) {
	nsync_time dl = deadline_of (dlk);
	int r = 0;
	used_deadline = dl;
	struct nsync_waitable_s w[5]; struct nsync_waitable_s *pw[5]; int i;
	switch (ep) {
	case EP_CV: case EP_CV_NOTE: case EP_CV_READER:
		if (ep == EP_CV_READER) nsync_mu_rlock (&mu); else nsync_mu_lock (&mu);
		r = 0;
		while (!(ep == EP_CV_NOTE ? 0 : flag) && r == 0) r = nsync_cv_wait_with_deadline (&cv, &mu, dl, ep == EP_CV_NOTE ? note : NULL);
		if (ep == EP_CV_READER) nsync_mu_runlock (&mu); else nsync_mu_unlock (&mu);
		return r == 0 ? 0 : r == ETIMEDOUT ? 1 : 2;
	case EP_MU_FALSE: case EP_MU_TRUE: case EP_MU_NOTE:
		if (ep == EP_MU_TRUE) flag = 1;
		nsync_mu_lock (&mu);
		r = nsync_mu_wait_with_deadline (&mu, &cond, &flag, NULL, dl, ep == EP_MU_NOTE ? note : NULL);
		nsync_mu_unlock (&mu);
		return r == 0 ? 0 : r == ETIMEDOUT ? 1 : 2;
	case EP_NOTE_WAIT: return nsync_note_wait (note, dl) ? 0 : 1;
	case EP_COUNTER_WAIT: return nsync_counter_wait (ctr, dl) == 0 ? 0 : 1;
	case EP_WAITN_NOTE: w[0].v = note; w[0].funcs = &nsync_note_waitable_funcs; pw[0] = &w[0]; return nsync_wait_n (NULL, NULL, NULL, dl, 1, pw) == 0 ? 0 : 1;
	case EP_WAITN_COUNTER: w[0].v = ctr; w[0].funcs = &nsync_counter_waitable_funcs; pw[0] = &w[0]; return nsync_wait_n (NULL, NULL, NULL, dl, 1, pw) == 0 ? 0 : 1;
	case EP_WAITN_CV:
		w[0].v = &cv; w[0].funcs = &nsync_cv_waitable_funcs; pw[0] = &w[0];
		nsync_mu_lock (&mu);
		r = 0; while (!flag && r == 0) r = nsync_wait_n (&mu, &lk, &ulk, dl, 1, pw);
		nsync_mu_unlock (&mu);
		return r == 0 ? 0 : 1;
	case EP_NOTE_OWN: {
		/* the deadline was given to nsync_note_new (child()); an untimed wait on the note ends by its expiry
		   ("timeout" result) or by the notification (event result); whichever it is, the poll, a child created
		   afterwards and a notification of the parent must agree and return */
		int by_event, kn; nsync_note kid;
		if (!nsync_note_wait (note, nsync_time_no_deadline)) return 5;
		by_event = event_begun;
		if (!nsync_note_is_notified (note)) return 6;
		kid = nsync_note_new (note, nsync_time_no_deadline); kn = nsync_note_is_notified (kid); nsync_note_free (kid);
		if (!kn) return 7;
		nsync_note_notify (own_parent);
		return by_event ? 0 : 1; }
	case EP_WAITN_5:
		for (i = 0; i < 3; i++) { w[i].v = notes[i]; w[i].funcs = &nsync_note_waitable_funcs; pw[i] = &w[i]; }
		w[3].v = ctr2; w[3].funcs = &nsync_counter_waitable_funcs; pw[3] = &w[3];
		w[4].v = note; w[4].funcs = &nsync_note_waitable_funcs; pw[4] = &w[4];
		return nsync_wait_n (NULL, NULL, NULL, dl, 5, pw) < 5 ? 0 : 1;
	}
	return -1;
}
/* child: exit code 0 ok, 10.. verdicts */
static int child (int ep, int dlk, int ev) {
	pthread_t th; nsync_time t0, t1, el; int r; long el_ms;
	nsync_mu_init (&mu); nsync_cv_init (&cv); flag = 0;
	note = nsync_note_new (NULL, nsync_time_no_deadline);
	for (r = 0; r < 3; r++) notes[r] = nsync_note_new (NULL, nsync_time_no_deadline);
	ctr = nsync_counter_new (1); ctr2 = nsync_counter_new (1);
	ev_kind = ev;
	if (ep == EP_NOTE_OWN) { own_parent = nsync_note_new (NULL, nsync_time_no_deadline); note = nsync_note_new (own_parent, deadline_of (dlk)); }
	if (ev == EV_ALREADY) make_event (ep);
	if (ev == EV_LATER) pthread_create (&th, NULL, &later, (void *) (intptr_t) ep);
	t0 = nsync_time_now ();
	r = run_case (ep, dlk);
	t1 = nsync_time_now ();
	el = nsync_time_sub (t1, t0); el_ms = (long) NSYNC_TIME_SEC (el) * 1000 + NSYNC_TIME_NSEC (el) / 1000000;
	if (ev == EV_LATER) pthread_join (th, NULL);
	{ int cancel = (ep == EP_CV_NOTE || ep == EP_MU_NOTE);          /* for these the awaited event is the cancellation: result ECANCELED */
	  if (cancel && r == 2) r = 0; else if (cancel && r == 0) r = 3; }
	if (ep == EP_MU_TRUE) return r == 0 ? 0 : 11;                    /* condition true: success whatever the deadline */
	if (ev == EV_ALREADY) return r == 0 ? 0 : 12;                       /* event already happened: the event's result, whatever the deadline */
	if (ev == EV_NEVER) {
		if (dl_is_past (dlk)) return (r == 1 && el_ms < 2000) ? 0 : r != 1 ? 13 : 14;   /* expired: timeout, promptly */
		if (dlk == DL_NOW_PLUS) return (r == 1 && el_ms >= D_MS - 1 && el_ms < 2000 + D_MS) ? 0 : r != 1 ? 15 : el_ms < D_MS - 1 ? 16 : 14;
		return 17;   /* far deadline and no event: the parent kills us; reaching here means an early timeout */
	}
	/* event at +d/2 */
	if (dl_is_past (dlk)) return (r == 1 || r == 0) && el_ms < 2000 ? 0 : 14;   /* either answer is right, promptly */
	if (dl_is_far (dlk)) return r == 0 ? 0 : 18;                                 /* must see the event, not a timeout */
	if (dlk == DL_NOW_PLUS) {
		/* must see the event -- unless this machine was so loaded that the helper thread only got to
		   make the event after the deadline had passed, in which case the timeout is the right answer */
		if (r == 0) return 0;
		if (!event_made || nsync_time_cmp (event_time, used_deadline) >= 0) return 0;
		return 18;
	}
	return 0;
}
int main (int argc, char **argv) {
	int ep, dlk, ev, cases = 0, bad = 0, distinct = 0;
	const char *filter = argc > 2 ? argv[2] : NULL;
	if (argc > 1) D_MS = atoi (argv[1]);
	setvbuf (stdout, NULL, _IOLBF, 0);
	for (ep = 0; ep < EP_N; ep++) for (dlk = 0; dlk < DL_N; dlk++) for (ev = 0; ev < EV_N; ev++) {
		char name[128]; pid_t pid; int st = 0, waited = 0, expect_hang;
		snprintf (name, sizeof name, "%s / deadline %s / event %s", ep_name[ep], dl_name[dlk], ev_name[ev]);
		if (filter && !strstr (name, filter)) continue;
		if (ep == EP_MU_TRUE && ev != EV_NEVER) continue;
		expect_hang = (ev == EV_NEVER && dl_is_far (dlk) && ep != EP_MU_TRUE);   /* legitimately waits for ever: must still be waiting after 3d */
		cases++; if (dlk != DL_NONE || ev != EV_NEVER) distinct++;
		pid = fork ();
		if (pid == 0) { alarm (20); _exit (child (ep, dlk, ev)); }
		{ int ms = 0, limit = expect_hang ? 3 * D_MS : 6000;
		  while (ms < limit) { if (waitpid (pid, &st, WNOHANG) == pid) { waited = 1; break; } usleep (1000); ms++; } }
		if (!waited) {
			kill (pid, SIGKILL); waitpid (pid, &st, 0);
			if (!expect_hang) { bad++; printf ("FAIL %s: hang (no return within 6 s)\n", name); }
			continue;
		}
		if (WIFSIGNALED (st)) { bad++; printf ("FAIL %s: crashed with signal %d\n", name, WTERMSIG (st)); continue; }
		if (WEXITSTATUS (st) != 0) {
			static const char *const why[] = { "", "condition true but not success", "event already happened but not success", "expired deadline did not produce the timeout result", "not prompt (> 2 s)", "future deadline: wrong result", "future deadline timed out early", "far deadline timed out / returned without event", "event happened before the deadline but a timeout was reported" };
			int c = WEXITSTATUS (st) - 10;
			bad++; printf ("FAIL %s: %s\n", name, c >= 1 && c <= 8 ? why[c] : "unexpected exit");
		}
	}
	printf ("{\"cases\":%d,\"nontrivial\":%d,\"failures\":%d}\n", cases, distinct, bad);
	return bad ? 1 : 0;
}
