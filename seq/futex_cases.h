/* futex_cases.h -- the single-step futex interactions used to bind the runtime's futex model to
   the real kernel (DESIGN.md section 5).  Included by seq/futex_conf.c (real kernel, pthreads)
   and by harness/fam_toy.c (the model, fibers).  The includer defines:
     FC_NOW(ts)            read CLOCK_REALTIME
     FC_SET(i) / FC_AWAIT(i)   cross-thread sequencing flags
     FC_SLEEPING(t)        wait until helper thread t is (almost certainly) asleep in the kernel
     FC_OUT(fmt, ...)      append to the result text
   All threads run fc_run (role); role 0 is the protagonist.  */
#include <errno.h>
#include <time.h>
#include <linux/futex.h>
#include <sys/syscall.h>
#include <unistd.h>
#include <limits.h>

static int fc_word[4];
static long fc_futex (int *u, int op, int val, const struct timespec *ts) { return syscall (SYS_futex, u, op, val, ts, NULL, FUTEX_BITSET_MATCH_ANY); }
#define FC_WAIT (FUTEX_WAIT_BITSET | FUTEX_PRIVATE_FLAG | FUTEX_CLOCK_REALTIME)
#define FC_WAKE (FUTEX_WAKE | FUTEX_PRIVATE_FLAG)
static const char *fc_err (long r) { return r >= 0 ? "ok" : errno == EAGAIN ? "EAGAIN" : errno == ETIMEDOUT ? "ETIMEDOUT" : errno == EINVAL ? "EINVAL" : errno == EINTR ? "EINTR" : "E?"; }

static void fc_run (int role) {
	struct timespec ts, now; long r;
	if (role == 0) {
		fc_word[0] = 5;
		r = fc_futex (&fc_word[0], FC_WAIT, 4, NULL); FC_OUT ("1 mismatch:%ld/%s\n", r, fc_err (r));
		FC_NOW (&now); ts = now; ts.tv_sec -= 1;
		r = fc_futex (&fc_word[0], FC_WAIT, 5, &ts); FC_OUT ("2 past:%ld/%s\n", r, fc_err (r));
		ts.tv_sec = 0; ts.tv_nsec = 0;
		r = fc_futex (&fc_word[0], FC_WAIT, 5, &ts); FC_OUT ("3 epoch:%ld/%s\n", r, fc_err (r));
		ts.tv_sec = -1; ts.tv_nsec = 0;
		r = fc_futex (&fc_word[0], FC_WAIT, 5, &ts); FC_OUT ("4 negative sec:%ld/%s\n", r, fc_err (r));
		ts.tv_sec = now.tv_sec + 100; ts.tv_nsec = 1000000000;
		r = fc_futex (&fc_word[0], FC_WAIT, 5, &ts); FC_OUT ("5 nsec 1e9:%ld/%s\n", r, fc_err (r));
		ts.tv_nsec = -1;
		r = fc_futex (&fc_word[0], FC_WAIT, 5, &ts); FC_OUT ("6 nsec -1:%ld/%s\n", r, fc_err (r));
		ts.tv_sec = -1; ts.tv_nsec = 0;
		r = fc_futex (&fc_word[0], FC_WAIT, 4, &ts); FC_OUT ("7 bad time and mismatch:%ld/%s\n", r, fc_err (r));
		ts.tv_sec = LONG_MIN; ts.tv_nsec = 0;
		r = fc_futex (&fc_word[0], FC_WAIT, 5, &ts); FC_OUT ("8 minimal sec:%ld/%s\n", r, fc_err (r));
		r = fc_futex (&fc_word[0], FC_WAKE, 1, NULL); FC_OUT ("9 wake nobody:%ld\n", r);
		FC_NOW (&now); ts = now; ts.tv_nsec += 30000000; if (ts.tv_nsec >= 1000000000) { ts.tv_nsec -= 1000000000; ts.tv_sec++; }
		r = fc_futex (&fc_word[0], FC_WAIT, 5, &ts); FC_NOW (&now);
		FC_OUT ("10 future:%ld/%s not-early:%d\n", r, fc_err (r), now.tv_sec > ts.tv_sec || (now.tv_sec == ts.tv_sec && now.tv_nsec >= ts.tv_nsec));
		/* one sleeper */
		FC_SET (1); FC_SLEEPING (1);
		r = fc_futex (&fc_word[1], FC_WAKE, 1, NULL); FC_OUT ("11 wake one sleeper:%ld\n", r);
		FC_AWAIT (2);
		/* two sleepers on the same word, woken one at a time */
		FC_SET (3); FC_SLEEPING (1); FC_SLEEPING (2);
		r = fc_futex (&fc_word[2], FC_WAKE, 1, NULL); FC_OUT ("12 wake 1 of 2:%ld\n", r);
		r = fc_futex (&fc_word[2], FC_WAKE, 1, NULL); FC_OUT ("13 wake 2nd:%ld\n", r);
		r = fc_futex (&fc_word[2], FC_WAKE, 1, NULL); FC_OUT ("14 wake none left:%ld\n", r);
		FC_AWAIT (4); FC_AWAIT (5);
		FC_SET (6); FC_SLEEPING (1); FC_SLEEPING (2);
		r = fc_futex (&fc_word[3], FC_WAKE, INT_MAX, NULL); FC_OUT ("15 wake all of 2:%ld\n", r);
		FC_AWAIT (7); FC_AWAIT (8);
	} else {
		FC_AWAIT (role == 1 ? 1 : 3);
		if (role == 1) {
			FC_NOW (&now); ts = now; ts.tv_sec += 1000;
			r = fc_futex (&fc_word[1], FC_WAIT, 0, &ts); FC_OUT ("11b sleeper woken:%ld/%s\n", r, fc_err (r));
			FC_SET (2);
			FC_AWAIT (3);
		}
		r = fc_futex (&fc_word[2], FC_WAIT, 0, NULL);
		if (role == 1) FC_OUT ("12b sleeper:%ld/%s\n", r, fc_err (r)); else FC_OUT ("13b sleeper:%ld/%s\n", r, fc_err (r));
		FC_SET (role == 1 ? 4 : 5);
		FC_AWAIT (6);
		r = fc_futex (&fc_word[3], FC_WAIT, 0, NULL);
		if (role == 1) FC_OUT ("15b sleeper:%ld/%s\n", r, fc_err (r)); else FC_OUT ("15c sleeper:%ld/%s\n", r, fc_err (r));
		FC_SET (role == 1 ? 7 : 8);
	}
}
