/* futex_conf.c -- the futex cases against the REAL kernel with real threads. */
#define _GNU_SOURCE
#include <stdio.h>
#include <stdarg.h>
#include <string.h>
#include <pthread.h>
#include <stdatomic.h>
static atomic_int flags[16];
static char out[3][2048]; static __thread int self;
#define FC_NOW(ts) clock_gettime (CLOCK_REALTIME, (ts))
#define FC_SET(i) atomic_store (&flags[i], 1)
#define FC_AWAIT(i) do { while (!atomic_load (&flags[i])) usleep (200); } while (0)
#define FC_SLEEPING(t) usleep (40000)
#define FC_OUT(...) do { size_t l_ = strlen (out[self]); snprintf (out[self] + l_, sizeof out[self] - l_, __VA_ARGS__); } while (0)
#include "futex_cases.h"
static void *th (void *v) { self = (int) (long) v; fc_run (self); return NULL; }
int main (void) {
	pthread_t t1, t2;
	pthread_create (&t1, NULL, th, (void *) 1L); pthread_create (&t2, NULL, th, (void *) 2L);
	self = 0; fc_run (0);
	pthread_join (t1, NULL); pthread_join (t2, NULL);
	fputs (out[0], stdout); fputs (out[1], stdout); fputs (out[2], stdout);
	return 0;
}
