/* seq_time.c -- C18: nsync_time arithmetic against __int128 integer arithmetic.
   Compiled twice: as C against time_rep.c + time_internal.c, and as C++11 against
   time_rep_timespec.cc + time_internal.c (the nsync_cpp configuration).
   usage: seq_time grid            boundary grid (all ordered pairs / small-subset triples)
          seq_time ms|us LO HI     every unsigned argument in [LO, HI)  */
#include "nsync_cpp.h"
#include "platform.h"
#include "compiler.h"
#include "cputype.h"
#include "nsync_time.h"
#include <stdio.h>
#include <stdint.h>
#include <stdlib.h>
#include <string.h>
NSYNC_CPP_USING_

typedef __int128 i128;
#define NS 1000000000LL
static unsigned long evals, nontrivial;
static int failures;
static char firstfail[512];

static i128 val (nsync_time t) { return (i128) NSYNC_TIME_SEC (t) * NS + NSYNC_TIME_NSEC (t); }
static int normalized (nsync_time t) { return NSYNC_TIME_NSEC (t) >= 0 && NSYNC_TIME_NSEC (t) < NS; }
static int fits (i128 v) { i128 s = v / NS; if (v % NS < 0) s -= 1; return s >= INT64_MIN && s <= INT64_MAX; }
static void fail (const char *what, nsync_time a, nsync_time b, nsync_time r) {
	if (!failures) snprintf (firstfail, sizeof firstfail, "%s: a={%lld,%ld} b={%lld,%ld} result={%lld,%ld}", what,
		(long long) NSYNC_TIME_SEC (a), (long) NSYNC_TIME_NSEC (a), (long long) NSYNC_TIME_SEC (b), (long) NSYNC_TIME_NSEC (b),
		(long long) NSYNC_TIME_SEC (r), (long) NSYNC_TIME_NSEC (r));
	failures++;
}
static int sign (i128 v) { return v > 0 ? 1 : v < 0 ? -1 : 0; }

static const int64_t SECS[] = { 0, 1, -1, 2, -2, 2147483647LL, -2147483647LL, 2147483648LL, -2147483648LL, 2147483649LL, -2147483649LL,
	1000000000000LL, -1000000000000LL, INT64_MAX / 4, -(INT64_MAX / 4), INT64_MAX - 1, INT64_MAX, INT64_MIN + 1, INT64_MIN };
static const long NSECS[] = { 0, 1, 2, 499999999, 500000000, 999999998, 999999999 };
#define NSEC_N (sizeof NSECS / sizeof NSECS[0])
#define SEC_N (sizeof SECS / sizeof SECS[0])

static int grid (void) {
	size_t i, j, k, l;
	static nsync_time T[SEC_N * NSEC_N]; size_t n = 0;
	for (i = 0; i < SEC_N; i++) for (j = 0; j < NSEC_N; j++) T[n++] = nsync_time_s_ns ((time_t) SECS[i], (unsigned) NSECS[j]);
	/* nsync_time_s_ns yields the stated value */
	n = 0;
	for (i = 0; i < SEC_N; i++) for (j = 0; j < NSEC_N; j++, n++) {
		evals++;
		if (NSYNC_TIME_SEC (T[n]) != SECS[i] || NSYNC_TIME_NSEC (T[n]) != NSECS[j]) fail ("nsync_time_s_ns", T[n], T[n], T[n]);
	}
	for (k = 0; k < n; k++) for (l = 0; l < n; l++) {
		nsync_time a = T[k], b = T[l], r;
		i128 va = val (a), vb = val (b);
		int c;
		/* cmp: sign of a-b, antisymmetric */
		c = nsync_time_cmp (a, b); evals++;
		if (c != sign (va - vb)) fail ("nsync_time_cmp disagrees with the sign of a-b", a, b, a);
		if (c != -nsync_time_cmp (b, a)) fail ("nsync_time_cmp not antisymmetric", a, b, a);
		if (va != vb) nontrivial++;
		/* add, where the seconds field does not overflow (intermediate sums included) */
		if (fits (va + vb) && !__builtin_add_overflow_p ((int64_t) NSYNC_TIME_SEC (a), (int64_t) NSYNC_TIME_SEC (b), (int64_t) 0) &&
		    !(NSYNC_TIME_SEC (a) + NSYNC_TIME_SEC (b) == INT64_MAX && NSYNC_TIME_NSEC (a) + NSYNC_TIME_NSEC (b) >= NS)) {
			r = nsync_time_add (a, b); evals++; nontrivial++;
			if (!normalized (r)) fail ("nsync_time_add result not normalized", a, b, r);
			else if (val (r) != va + vb) fail ("nsync_time_add != integer sum", a, b, r);
			else {
				/* (a+b)-b == a */
				nsync_time s = nsync_time_sub (r, b); evals++;
				if (!normalized (s) || val (s) != va) fail ("(a+b)-b != a", a, b, s);
			}
		}
		if (fits (va - vb) && !__builtin_sub_overflow_p ((int64_t) NSYNC_TIME_SEC (a), (int64_t) NSYNC_TIME_SEC (b), (int64_t) 0) &&
		    !(NSYNC_TIME_SEC (a) - NSYNC_TIME_SEC (b) == INT64_MIN && NSYNC_TIME_NSEC (a) < NSYNC_TIME_NSEC (b))) {
			r = nsync_time_sub (a, b); evals++; nontrivial++;
			if (!normalized (r)) fail ("nsync_time_sub result not normalized", a, b, r);
			else if (val (r) != va - vb) fail ("nsync_time_sub != integer difference", a, b, r);
		}
		/* zero <= t <= no_deadline for t >= 0 */
		if (va >= 0 && l == 0) {
			evals++;
			if (nsync_time_cmp (nsync_time_zero, a) > 0 || nsync_time_cmp (a, nsync_time_no_deadline) > 0) fail ("zero <= t <= no_deadline violated", a, a, a);
		}
	}
	/* transitivity / totality on a subset: every 5th value */
	for (i = 0; i < n; i += 5) for (j = 0; j < n; j += 5) for (k = 0; k < n; k += 5) {
		int ab = nsync_time_cmp (T[i], T[j]), bc = nsync_time_cmp (T[j], T[k]), ac = nsync_time_cmp (T[i], T[k]);
		evals++;
		if (ab <= 0 && bc <= 0 && ac > 0) fail ("nsync_time_cmp not transitive", T[i], T[j], T[k]);
		if (ab == 0 && bc == 0 && ac != 0) fail ("nsync_time_cmp equality not transitive", T[i], T[j], T[k]);
	}
	if (val (nsync_time_zero) != 0) fail ("nsync_time_zero is not zero", nsync_time_zero, nsync_time_zero, nsync_time_zero);
	if (NSYNC_TIME_SEC (nsync_time_no_deadline) != INT64_MAX || NSYNC_TIME_NSEC (nsync_time_no_deadline) != NS - 1) fail ("nsync_time_no_deadline is not the maximum", nsync_time_no_deadline, nsync_time_zero, nsync_time_zero);
	return 0;
}
static void scale (int us, uint64_t lo, uint64_t hi) {
	uint64_t x;
	for (x = lo; x < hi; x++) {
		unsigned a = (unsigned) x;
		nsync_time t = us ? nsync_time_us (a) : nsync_time_ms (a);
		i128 want = (i128) a * (us ? 1000 : 1000000);
		evals++;
		if (a >= 1000) nontrivial++;
		if (!normalized (t) || val (t) != want) { nsync_time z = nsync_time_s_ns ((time_t) a, 0); fail (us ? "nsync_time_us wrong for argument in a.sec" : "nsync_time_ms wrong for argument in a.sec", z, z, t); }
	}
}
int main (int argc, char **argv) {
	if (argc >= 2 && !strcmp (argv[1], "grid")) {
		static const unsigned G[] = { 0, 1, 2, 999, 1000, 1001, 1999, 2000, 999999, 1000000, 1000001, 999999999, 1000000000, 1000000001, 2147483647u, 2147483648u, 2147483649u, 4294967294u, 4294967295u, 4294966999u, 4294967000u, 4293999999u, 4294000000u };
		size_t i;
		grid ();
		for (i = 0; i < sizeof G / sizeof G[0]; i++) { scale (0, G[i], (uint64_t) G[i] + 1); scale (1, G[i], (uint64_t) G[i] + 1); }
	} else if (argc >= 4 && (!strcmp (argv[1], "ms") || !strcmp (argv[1], "us"))) {
		scale (argv[1][0] == 'u', strtoull (argv[2], 0, 10), strtoull (argv[3], 0, 10));
	} else return 2;
	printf ("{\"evaluations\":%lu,\"nontrivial\":%lu,\"failures\":%d,\"first\":\"%s\"}\n", evals, nontrivial, failures, firstfail);
	return failures ? 1 : 0;
}
