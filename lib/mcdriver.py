"""mcdriver -- builds the code under test from the repository's working tree, farms
exploration jobs (one program each) out to worker processes, aggregates their
statistics into an evidence file and turns violations into replay files."""
import os, sys, json, time, subprocess, re, hashlib, threading
from concurrent.futures import ThreadPoolExecutor, as_completed

V = os.path.dirname(os.path.dirname(os.path.abspath(__file__)))
REPO = os.environ.get('VERIF_REPO', '/repo')
NPROC = int(os.environ.get('VERIF_JOBS', os.cpu_count() or 4))
SEED = int(os.environ.get('VERIF_SEED', '0') or 0)
# Where evidence/ and replays/ are written (default /verif).  Runs against seeded / scratch trees set
# VERIF_OUT (and VERIF_BUILD_SUFFIX) so that they disturb neither the committed evidence nor a
# concurrent run on /repo.
OUT = os.environ.get('VERIF_OUT', V)
BUILD_SUFFIX = os.environ.get('VERIF_BUILD_SUFFIX', '')

class FrameworkError(Exception):
    pass

_built = {}
def build(cfg, defs='', tag=None):
    """(Re)build /verif/build/<tag>/nsmc from REPO's current working tree."""
    tag = (tag or cfg) + BUILD_SUFFIX
    key = (cfg, defs, tag)
    if key in _built:
        return _built[key]
    env = dict(os.environ, VERIF_REPO=REPO, VERIF_CUT_DEFS=defs, VERIF_BUILD_TAG=tag)
    r = subprocess.run([os.path.join(V, 'build.sh'), cfg, REPO], env=env, stdout=subprocess.PIPE, stderr=subprocess.PIPE, text=True)
    if r.returncode != 0:
        raise FrameworkError('build of %s failed:\n%s' % (cfg, r.stderr[-4000:]))
    path = r.stdout.strip().splitlines()[-1]
    _built[key] = path
    return path

class Job:
    __slots__ = ('cfg', 'family', 'program', 'P', 'E', 'flags', 'defs', 'tag', 'note')
    def __init__(self, cfg, family, program, P, E, flags=(), defs='', tag=None, note=''):
        self.cfg, self.family, self.program, self.P, self.E = cfg, family, program, P, E
        self.flags, self.defs, self.tag, self.note = tuple(flags), defs, tag, note
    def argv(self, nsmc, extra=()):
        return [nsmc, '--config', self.tag or self.cfg, '--family', self.family, '--program', self.program,
                '--P', str(self.P), '--E', str(self.E)] + list(self.flags) + list(extra)
    def key(self):
        return (self.tag or self.cfg, self.family, self.program, self.P, self.E, self.flags)
    def ident(self):
        return {'config': self.tag or self.cfg, 'family': self.family, 'program': self.program, 'P': self.P, 'E': self.E, 'flags': list(self.flags), 'defs': self.defs}

def run_one(job, deadline_s, extra=()):
    nsmc = build(job.cfg, job.defs, job.tag)
    argv = job.argv(nsmc, ['--deadline', '%.1f' % deadline_s] + list(extra))
    t0 = time.time()
    try:
        r = subprocess.run(argv, stdout=subprocess.PIPE, stderr=subprocess.PIPE, text=True, timeout=deadline_s + 120)
    except subprocess.TimeoutExpired:
        return {'job': job, 'error': 'worker did not honour its deadline', 'argv': argv}
    if r.returncode not in (0, 1):
        return {'job': job, 'error': 'nsmc exit %d: %s' % (r.returncode, (r.stderr or r.stdout)[-2000:]), 'argv': argv}
    try:
        d = json.loads(r.stdout.strip().splitlines()[-1])
    except Exception as e:
        return {'job': job, 'error': 'unparsable output: %r' % (r.stdout[-500:],), 'argv': argv}
    d['job'] = job
    d['elapsed'] = time.time() - t0
    return d

def run_jobs(jobs, wall_budget_s, per_job_cap_s=None, sample_every=None, progress=True):
    """Run all jobs on NPROC workers.  Jobs not started before the budget ran out
    are reported as skipped (the caller then says exhaustive: false)."""
    # build everything needed first (sequentially: builds are parallel inside)
    for j in jobs:
        build(j.cfg, j.defs, j.tag)
    t_end = time.time() + wall_budget_s
    results, skipped = [], []
    lock = threading.Lock()
    order = list(range(len(jobs)))
    # longest-first scheduling from the costs measured by earlier runs (only affects wall time)
    costs = {}
    cpath = os.path.join(V, 'build', 'costs.json')
    try:
        costs = json.load(open(cpath))
    except Exception:
        pass
    order.sort(key=lambda i: -costs.get(repr(jobs[i].key()), 1.0))
    if SEED:
        import random
        random.Random(SEED).shuffle(order)     # only the order in which programs are scheduled on workers
    def work(i):
        j = jobs[i]
        left = t_end - time.time()
        if left < 2:
            return ('skip', j)
        dl = left if per_job_cap_s is None else min(left, per_job_cap_s)
        extra = []
        if sample_every and i % sample_every == 0:
            extra += ['--sample', '--selftest-determinism']
        return ('done', run_one(j, dl, extra))
    with ThreadPoolExecutor(max_workers=NPROC) as ex:
        futs = [ex.submit(work, i) for i in order]
        n = 0
        for f in as_completed(futs):
            kind, r = f.result()
            n += 1
            if kind == 'skip':
                skipped.append(r)
            else:
                results.append(r)
            if progress and n % 200 == 0:
                print('  ... %d/%d programs' % (n, len(jobs)), flush=True)
    try:
        for r in results:
            if 'wall' in r:
                costs[repr(r['job'].key())] = r['wall']
        os.makedirs(os.path.join(V, 'build'), exist_ok=True)
        with open(cpath + '.tmp', 'w') as fp:
            json.dump(costs, fp)
        os.replace(cpath + '.tmp', cpath)
    except Exception:
        pass
    return results, skipped

def deepen(results, t_end, ran_keys, max_rounds=3, growth=8.0, per_job_cap_s=600):
    """Iterate the preemption bound: while wall time of the tier is left, re-explore the programs whose base
    bound completed with P+1 (cheapest first, as many as the remaining cpu time is predicted to hold), then
    those again with P+2, ...  Results are tagged r['bonus'] = round; a bonus run cut by the time limit does
    not make the base tier inexhaustive (finish() reports the rounds separately)."""
    bonus, rounds = [], []
    prev = results
    for rnd in range(1, max_rounds + 1):
        left = t_end - time.time()
        if left < 90:
            break
        cand = []
        for r in prev:
            if 'error' in r or r.get('illegal') or not r.get('complete') or r.get('violations'):
                continue
            j = r['job']
            if j.P >= 99 or '--hb' in j.flags:
                continue
            cost = max(r.get('wall', 0.05), 0.05) * growth
            if cost > min(left, per_job_cap_s) * 0.8:
                continue
            nj = Job(j.cfg, j.family, j.program, j.P + 1, j.E, j.flags, j.defs, j.tag, j.note)
            if nj.key() in ran_keys:
                continue
            cand.append((cost, nj))
        cand.sort(key=lambda c: c[0])
        budget = left * NPROC * 0.5
        chosen = []
        for c, nj in cand:
            if c > budget:
                break
            budget -= c
            chosen.append(nj)
            ran_keys.add(nj.key())
        if not chosen:
            break
        res2, sk2 = run_jobs(chosen, left, per_job_cap_s=min(left, per_job_cap_s), progress=False)
        for r in res2:
            r['bonus'] = rnd
        done = [r for r in res2 if 'error' not in r and r.get('complete')]
        rounds.append({'round': rnd, 'bound': 'P+%d' % rnd, 'programs_started': len(res2), 'programs_completed': len(done),
                       'programs_cut_by_time': len([r for r in res2 if 'error' not in r and not r.get('complete')]) + len(sk2),
                       'candidates': len(cand)})
        bonus += res2
        prev = res2
    return bonus, rounds

_sym_cache = {}
def symbolize(nsmc, pcs):
    """pc -> 'function (file:line)' using addr2line on the non-PIE binary."""
    pcs = [p for p in pcs if p]
    need = [p for p in pcs if (nsmc, p) not in _sym_cache]
    if need:
        # a return address points after the call; step back one byte to land inside it
        r = subprocess.run(['addr2line', '-f', '-i', '-e', nsmc] + ['0x%x' % (p - 1) for p in need], stdout=subprocess.PIPE, text=True)
        lines = r.stdout.splitlines()
        # -i prints a variable number of (func, file:line) pairs per address; resolve one at a time if counts mismatch
        if len(lines) == 2 * len(need):
            for p, i in zip(need, range(0, len(lines), 2)):
                _sym_cache[(nsmc, p)] = (lines[i], os.path.basename(lines[i + 1].split(' ')[0]))
        else:
            for p in need:
                r = subprocess.run(['addr2line', '-f', '-i', '-e', nsmc, '0x%x' % (p - 1)], stdout=subprocess.PIPE, text=True)
                l = r.stdout.splitlines()
                funcs = [l[i] for i in range(0, len(l), 2)]
                locs = [os.path.basename(l[i].split(' ')[0]) for i in range(1, len(l), 2)]
                _sym_cache[(nsmc, p)] = ('<-'.join(funcs) if funcs else '??', locs[0] if locs else '??')
    return {p: _sym_cache[(nsmc, p)] for p in pcs}

_site_cache = {}
def site_coverage(nsmc, site_pcs):
    """Synchronisation call sites (atomic operations and futex calls) of each nsync source file: present in the
    binary (from the disassembly of its t_<file> text section) vs exercised by this run (return addresses
    recorded by the runtime's hooks)."""
    if nsmc not in _site_cache:
        present = {}
        try:
            out = subprocess.run(['objdump', '-d', '--no-show-raw-insn', nsmc], stdout=subprocess.PIPE, text=True).stdout
            sec = None
            prev_call = False
            for line in out.splitlines():
                if line.startswith('Disassembly of section '):
                    sec = line.split('section ')[1].rstrip(':')
                    prev_call = False
                    continue
                if sec is None or not sec.startswith('t_'):
                    continue
                m = re.match(r'\s*([0-9a-f]+):\s+(\S+)\s*(.*)', line)
                if not m:
                    continue
                addr = int(m.group(1), 16)
                if prev_call:
                    present.setdefault(sec[2:], set()).add(addr)     # the return address = next instruction
                prev_call = m.group(2).startswith('call') and ('__tsan_atomic32' in m.group(3) or 'mc_syscall' in m.group(3))
        except Exception:
            present = {}
        _site_cache[nsmc] = present
    present = _site_cache[nsmc]
    out = {}
    pcs = set(site_pcs)
    for f, addrs in sorted(present.items()):
        out[f] = '%d of %d' % (len(addrs & pcs), len(addrs))
    return out

def load_known_findings():
    """known_findings.txt: lines 'finding: property=<id> family=<f> func=<regex> msg=<regex> :: what'
    and 'fixed: property=<id> <commit> <what failed>' (fixed entries suppress nothing)."""
    out = []
    p = os.path.join(V, 'known_findings.txt')
    if os.path.exists(p):
        for line in open(p):
            line = line.strip()
            if not line.startswith('finding:'):
                continue
            head, _, what = line[len('finding:'):].partition('::')
            kv = dict(re.findall(r'(\w+)=(\S+)', head))
            kv['what'] = what.strip()
            out.append(kv)
    return out

def violation_signature(nsmc, v):
    syms = symbolize(nsmc, v['pc'])
    f0 = syms.get(v['pc'][0], ('', ''))
    f2 = syms.get(v['pc'][2], ('', ''))
    kind = re.sub(r'T\d+', 'T', v['msg'])
    kind = re.sub(r'0x[0-9a-f]+|\d+', 'N', kind)[:80]
    return {'kind': kind, 'func': f0[0] or f2[0], 'at': f0[1], 'caller': f2[0], 'caller_at': f2[1],
            'other': syms.get(v['pc'][1], ('', ''))}

def confirm_and_write_replay(prop, res, v, n):
    """Replay the violating schedule (the binary runs it twice and compares); write the replay file."""
    job = res['job']
    nsmc = build(job.cfg, job.defs, job.tag)
    argv = job.argv(nsmc, ['--replay', v['schedule']])
    r = subprocess.run(argv, stdout=subprocess.PIPE, stderr=subprocess.PIPE, text=True)
    deterministic = ('deterministic=yes' in r.stdout) and r.returncode == 1
    d = os.path.join(OUT, 'replays', prop)
    os.makedirs(d, exist_ok=True)
    path = os.path.join(d, '%d.json' % n)
    sig = violation_signature(nsmc, v)
    with open(path, 'w') as fp:
        json.dump({'property': prop, 'job': job.ident(), 'message': v['msg'], 'signature': sig, 'schedule': v['schedule'],
                   'usedP': v['usedP'], 'usedE': v['usedE'], 'times_seen': v['count'], 'replayed_identically': deterministic,
                   'how_to_replay': './check --replay ' + path}, fp, indent=1)
    return path, deterministic, sig, r.stdout

def replay_file(path):
    d = json.load(open(path))
    j = d['job']
    job = Job(j['config'] if j['config'] in ('c-futex', 'c-binsem', 'c11-futex', 'cpp-futex') else j.get('cfg', 'c-futex'),
              j['family'], j['program'], j['P'], j['E'], j.get('flags', ()), j.get('defs', ''), j['config'])
    # tags are '<cfg>' or '<cfg>.<suffix>'
    job.cfg = j['config'].split('.')[0]
    nsmc = build(job.cfg, job.defs, job.tag)
    flags = [f for f in job.flags]
    argv = job.argv(nsmc, ['--replay', d['schedule']])
    r = subprocess.run(argv, stdout=subprocess.PIPE, text=True)
    out = r.stdout
    # symbolize the pcs in the trailer
    m = re.search(r'pc=(0x[0-9a-f]+|\(nil\)) other_pc=(0x[0-9a-f]+|\(nil\)) caller_pc=(0x[0-9a-f]+|\(nil\))', out)
    print(out, end='')
    if m:
        pcs = [int(x, 16) if x != '(nil)' else 0 for x in m.groups()]
        syms = symbolize(nsmc, pcs)
        for name, p in zip(('at', 'other access / free', 'called from'), pcs):
            if p:
                print('  %s: %s (%s)' % (name, syms[p][0], syms[p][1]))
    print('property: %s   program: %s/%s "%s"  P=%d E=%d' % (d['property'], j['config'], j['family'], j['program'], j['P'], j['E']))
    return r.returncode

def validate_evidence(ev):
    """Minimal structural validation (full schema validation runs where jsonschema is installed)."""
    try:
        import jsonschema
        schema = json.load(open('/root/.vp/EVIDENCE.schema.json'))
        jsonschema.validate(ev, schema)
    except ImportError:
        for k in ('property_id', 'tier', 'seed', 'level', 'coverage', 'wall_s'):
            assert k in ev, k
    except FileNotFoundError:
        pass

def finish(prop, tier, level, results, skipped, t0, extra_cov=None, assumptions=(), technique_note='', deepening=None):
    """Aggregate worker results, handle violations / known findings, write evidence, return exit code."""
    errors = [r for r in results if 'error' in r]
    ok = [r for r in results if 'error' not in r and not r.get('illegal')]
    illegal = [r for r in results if r.get('illegal')]
    if errors:
        for e in errors[:5]:
            print('FRAMEWORK-ERROR %s: %s' % (e['job'].ident(), e['error']), file=sys.stderr)
    states = sum(r['states'] for r in ok)
    trans = sum(r['steps_new'] for r in ok)
    steps = sum(r['steps'] for r in ok)
    execs = sum(r['execs'] for r in ok)
    det_checked = sum(r.get('determinism_checked', 0) for r in ok)
    det_bad = [r for r in ok if r.get('determinism_ok') is False]
    racep = [r for r in ok if r['job'].note == 'race pass']
    capped = [r for r in ok if not r['complete'] and not r.get('bonus') and r['job'].note != 'race pass']
    outcomes = set()
    per_prog_outcomes = 0
    for r in ok:
        per_prog_outcomes += len(r['outcomes'])
        for o in r['outcomes']:
            outcomes.add((r['family'], r['program'], o))
    sites = {}
    build_of = {}
    for r in ok:
        k = (r['job'].tag or r['job'].cfg)
        sites.setdefault(k, set()).update(r.get('sites', ()))
        build_of[k] = build(r['job'].cfg, r['job'].defs, r['job'].tag)
    samples = []
    for r in ok:
        if 'sample' in r and len(samples) < 6:
            samples.append({'config': r['config'], 'family': r['family'], 'program': r['program'], 'P': r['P'], 'E': r['E'],
                            'one_complete_schedule': r['sample']['schedule'], 'its_outcome': r['sample']['outcome'],
                            'executions': r['execs'], 'states': r['states'], 'distinct_outcomes': len(r['outcomes'])})
    if not samples and ok:
        r = ok[0]
        samples.append({'config': r['config'], 'family': r['family'], 'program': r['program'], 'P': r['P'], 'E': r['E'], 'executions': r['execs'], 'states': r['states']})
    # ---- violations ----
    known = [k for k in load_known_findings() if k.get('property') == prop]
    exit_code = 0
    nviol = 0
    replays_validated = 0
    seen_known = set()
    reported = []
    import shutil
    shutil.rmtree(os.path.join(OUT, 'replays', prop), ignore_errors=True)
    sig_seen = {}
    total_viol = sum(len(r['violations']) for r in ok)
    # cheapest counterexamples first (fewest deviations, shortest schedule)
    cand = sorted(((v['usedP'] + v['usedE'], len(v['schedule']), i, j) for i, r in enumerate(ok) for j, v in enumerate(r['violations'])))
    for _, _, i, j in cand:
        r = ok[i]; v = r['violations'][j]
        if True:
            nsmc_ = build(r['job'].cfg, r['job'].defs, r['job'].tag)
            presig = violation_signature(nsmc_, v)
            key = (r['family'], presig['kind'][:60], presig['func'], presig['caller'])
            sig_seen[key] = sig_seen.get(key, 0) + 1
            if sig_seen[key] > 2 or nviol >= 40:
                continue            # same kind of violation at the same site: two replays are enough
            nviol += 1
            path, deterministic, sig, trace = confirm_and_write_replay(prop, r, v, nviol)
            replays_validated += 1
            if not deterministic:
                print('FRAMEWORK-ERROR: violation did not replay identically (%s): %s' % (path, v['msg']), file=sys.stderr)
                errors.append({'job': r['job'], 'error': 'non-deterministic replay'})
                continue
            hit = None
            for k in known:
                if k.get('family') and k['family'] != r['family']:
                    continue
                if k.get('func') and not re.search(k['func'], sig['func'] + ' ' + sig['caller']):
                    continue
                if k.get('msg') and not re.search(k['msg'].replace('_', ' '), v['msg']):
                    continue
                hit = k
                break
            if hit:
                key = (hit.get('func'), hit.get('msg'))
                if key not in seen_known:
                    seen_known.add(key)
                    print('KNOWN-FINDING: property=%s %s (e.g. %s)' % (prop, hit['what'], path))
                continue
            if len(reported) < 10:
                print('VIOLATION property=%s replay=%s' % (prop, path))
                print('  %s/%s "%s" P=%d E=%d: %s' % (r['config'], r['family'], r['program'], r['P'], r['E'], v['msg']))
                print('  at %s (%s), called from %s' % (sig['func'], sig['at'], sig['caller']))
            reported.append(path)
            exit_code = 1
    if det_bad:
        print('FRAMEWORK-ERROR: determinism self-check failed for %d programs' % len(det_bad), file=sys.stderr)
    exhaustive = not skipped and not capped and not errors
    cov = {
        'states': states, 'transitions': trans, 'traces_validated_against_impl': det_checked + replays_validated,
        'samples': samples,
        'programs': len(ok), 'programs_skipped_for_time': len(skipped), 'programs_capped': len(capped),
        'executions': execs, 'steps_including_prefix_replays': steps,
        'executions_pruned_by_visited_state': sum(r['pruned'] for r in ok),
        'max_depth': max([r['max_depth'] for r in ok] or [0]),
        'distinct_outcomes_over_all_programs': len(outcomes),
        'sync_call_sites_exercised_of_present_per_source_file': {k: site_coverage(build_of[k], v) for k, v in sites.items()},
        'budgets': sorted({'%s threads=%d P=%s E=%d%s' % (r['config'], r['threads'], 'unbounded' if r['P'] >= 99 else r['P'], r['E'], ' stateless+hb' if r['hb'] else '') for r in ok if r['complete']}),
        'exhaustive': exhaustive,
        'violating_schedules_found': total_viol,
        'explanation': technique_note,
    }
    if racep:
        cov['race_pass'] = {'note': 'the scheduler interrupts threads only at atomic operations / futex calls / yields; unsynchronised plain accesses between them are caught by this separate stateless pass of the same programs under the happens-before monitor (P <= 1)',
                            'programs': len(racep), 'programs_cut_by_time': len([r for r in racep if not r['complete']]),
                            'executions': sum(r['execs'] for r in racep), 'schedule_tree_nodes': sum(r['states'] for r in racep)}
    if deepening:
        cov['iterated_bound'] = {'note': 'after the listed budgets completed, programs were re-explored with a larger preemption budget while tier time was left; '
                                         'a re-exploration cut by time leaves the base bound complete and is not counted in programs_capped', 'rounds': deepening}
    if extra_cov:
        cov.update(extra_cov)
    ev = {'property_id': prop, 'tier': tier, 'seed': SEED, 'level': level, 'coverage': cov,
          'assumptions': list(assumptions), 'wall_s': round(time.time() - t0, 2), 'violations': len(reported)}
    if states == 0 or trans == 0:
        errors.append({'job': None, 'error': 'nothing explored'})
    os.makedirs(os.path.join(OUT, 'evidence'), exist_ok=True)
    validate_evidence(ev)
    with open(os.path.join(OUT, 'evidence', prop + '.json'), 'w') as fp:
        json.dump(ev, fp, indent=1)
    print('%s %s: %d programs, %d executions, %d states, %d transitions, %d distinct outcomes, exhaustive=%s, %.1fs%s' % (
        prop, tier, len(ok), execs, states, trans, len(outcomes), exhaustive, time.time() - t0,
        '' if not skipped and not capped else ' (%d skipped, %d capped by the time limit)' % (len(skipped), len(capped))))
    if os.environ.get('VERIF_PROFILE'):
        for r in sorted(ok, key=lambda r: -r['wall'])[:25]:
            print('   %7.1fs %9d states  %s/%s "%s" P=%d E=%d%s' % (r['wall'], r['states'], r['config'], r['family'], r['program'], r['P'], r['E'], '' if r['complete'] else ' CAPPED'))
        print('   total cpu %.0fs' % sum(r['wall'] for r in ok))
    if exit_code == 0 and errors:
        return 2
    return exit_code
