"""Sequential properties decided by exhaustive enumeration of the real functions:
C17 (list primitives: BFS over all reachable abstract states, each transition executed by the
real dll.c), C18 (time arithmetic: complete boundary grid, all 2^32 arguments in thorough),
C15 (deadline boundary table on the real platform layer and kernel), C19 is in the MC engine."""
import os, sys, json, time, subprocess, ctypes, itertools, collections, tempfile, shutil, atexit
import mcdriver

V = mcdriver.V
REPO = mcdriver.REPO
SEED = mcdriver.SEED

def scratch():
    d = tempfile.mkdtemp(prefix='nsync-verif.')
    atexit.register(lambda: shutil.rmtree(d, ignore_errors=True))
    return d

INC = ['-I%s/platform/linux' % REPO, '-I%s/platform/gcc' % REPO, '-I%s/platform/posix' % REPO, '-I%s/platform/x86_64' % REPO, '-I%s/public' % REPO, '-I%s/internal' % REPO]

def write_evidence(prop, tier, level, cov, t0, violations, assumptions):
    ev = {'property_id': prop, 'tier': tier, 'seed': SEED, 'level': level, 'coverage': cov, 'assumptions': assumptions,
          'wall_s': round(time.time() - t0, 2), 'violations': violations}
    mcdriver.validate_evidence(ev)
    os.makedirs(os.path.join(mcdriver.OUT, 'evidence'), exist_ok=True)
    with open(os.path.join(mcdriver.OUT, 'evidence', prop + '.json'), 'w') as fp:
        json.dump(ev, fp, indent=1)

def write_replay(prop, n, obj):
    d = os.path.join(mcdriver.OUT, 'replays', prop)
    os.makedirs(d, exist_ok=True)
    p = os.path.join(d, '%d.json' % n)
    with open(p, 'w') as fp:
        json.dump(obj, fp, indent=1)
    return p

# =====================================================================  C17
class El(ctypes.Structure):
    pass
El._fields_ = [('next', ctypes.POINTER(El)), ('prev', ctypes.POINTER(El)), ('container', ctypes.c_void_p)]

def build_dll():
    d = scratch()
    so = os.path.join(d, 'dll.so')
    r = subprocess.run(['gcc', '-O1', '-g', '-shared', '-fPIC'] + INC + ['-o', so, os.path.join(REPO, 'internal/dll.c')], stderr=subprocess.PIPE, text=True)
    if r.returncode:
        raise mcdriver.FrameworkError('cannot build dll.c: ' + r.stderr)
    L = ctypes.CDLL(so)
    P = ctypes.POINTER(El)
    L.nsync_dll_init_.argtypes = [P, ctypes.c_void_p]; L.nsync_dll_init_.restype = None
    L.nsync_dll_is_empty_.argtypes = [P]; L.nsync_dll_is_empty_.restype = ctypes.c_int
    L.nsync_dll_remove_.argtypes = [P, P]; L.nsync_dll_remove_.restype = P
    L.nsync_dll_splice_after_.argtypes = [P, P]; L.nsync_dll_splice_after_.restype = None
    for f in ('nsync_dll_make_first_in_list_', 'nsync_dll_make_last_in_list_', 'nsync_dll_next_', 'nsync_dll_prev_'):
        getattr(L, f).argtypes = [P, P]; getattr(L, f).restype = P
    for f in ('nsync_dll_first_', 'nsync_dll_last_'):
        getattr(L, f).argtypes = [P]; getattr(L, f).restype = P
    return L

def canon_ring(r):
    i = r.index(min(r))
    return tuple(r[i:] + r[:i])

class DllModel:
    """Reference: two sequences and a set of loose rings (cyclic sequences)."""
    def __init__(self, n):
        self.lists = [(), ()]
        self.rings = frozenset((i,) for i in range(n))
    def key(self):
        return (self.lists[0], self.lists[1], self.rings)
    @staticmethod
    def from_key(k):
        m = DllModel(0); m.lists = [k[0], k[1]]; m.rings = k[2]; return m
    def ring_of(self, e):
        for r in self.rings:
            if e in r: return r
        return None
    def ops(self):
        out = []
        loose = [e for r in self.rings for e in r]
        for l in (0, 1):
            for e in loose:
                out.append(('first', l, e)); out.append(('last', l, e))
            for e in self.lists[l]:
                out.append(('remove', l, e))
        for p in loose:
            for n in loose:
                if self.ring_of(p) != self.ring_of(n):
                    out.append(('splice', p, n))
        return out
    def apply(self, op):
        m = DllModel.from_key(self.key())
        if op[0] in ('first', 'last'):
            _, l, e = op
            r = list(self.ring_of(e)); i = r.index(e)
            if op[0] == 'first':
                rot = r[i:] + r[:i]                      # e, then the rest of its ring
                m.lists[l] = tuple(rot) + self.lists[l]
            else:
                rot = r[i + 1:] + r[:i + 1]              # the rest of its ring, then e
                m.lists[l] = self.lists[l] + tuple(rot)
            m.rings = self.rings - {self.ring_of(e)}
        elif op[0] == 'remove':
            _, l, e = op
            m.lists[l] = tuple(x for x in self.lists[l] if x != e)
            m.rings = self.rings | {(e,)}
        else:
            _, p, n = op
            rp = list(self.ring_of(p)); rn = list(self.ring_of(n))
            ip = rp.index(p); i_n = rn.index(n)
            new = [p] + rn[i_n:] + rn[:i_n] + rp[ip + 1:] + rp[:ip]
            m.rings = (self.rings - {self.ring_of(p), self.ring_of(n)}) | {canon_ring(new)}
        return m

def addr(p):
    return ctypes.addressof(p.contents) if p else 0

class DllReal:
    """The real dll.c on a fresh array of elements; executes histories of operations."""
    def __init__(self, L, n):
        self.L, self.n = L, n
        self.arr = (El * n)()
        for i in range(n):
            L.nsync_dll_init_(ctypes.byref(self.arr[i]), ctypes.addressof(self.arr[i]))
        self.base = ctypes.addressof(self.arr)
        self.heads = [ctypes.POINTER(El)(), ctypes.POINTER(El)()]
    def ptr(self, i):
        return ctypes.pointer(self.arr[i])
    def idx(self, p):
        return (addr(p) - self.base) // ctypes.sizeof(El)
    def do(self, op):
        L = self.L
        if op[0] == 'first': self.heads[op[1]] = L.nsync_dll_make_first_in_list_(self.heads[op[1]], self.ptr(op[2]))
        elif op[0] == 'last': self.heads[op[1]] = L.nsync_dll_make_last_in_list_(self.heads[op[1]], self.ptr(op[2]))
        elif op[0] == 'remove': self.heads[op[1]] = L.nsync_dll_remove_(self.heads[op[1]], self.ptr(op[2]))
        else: L.nsync_dll_splice_after_(self.ptr(op[1]), self.ptr(op[2]))
    def observe(self):
        """(listA, listB, rings) through the traversal functions forwards; also checks backwards, is_empty."""
        L = self.L
        lists, seen = [], set()
        for h in self.heads:
            fwd, p, guard = [], L.nsync_dll_first_(h), 0
            while p and guard <= self.n:
                fwd.append(self.idx(p)); p = L.nsync_dll_next_(h, p); guard += 1
            if guard > self.n: return None, 'forward traversal does not terminate'
            bwd, p, guard = [], L.nsync_dll_last_(h), 0
            while p and guard <= self.n:
                bwd.append(self.idx(p)); p = L.nsync_dll_prev_(h, p); guard += 1
            if guard > self.n: return None, 'backward traversal does not terminate'
            if fwd != bwd[::-1]: return None, 'forward %s and backward %s traversals disagree' % (fwd, bwd)
            if bool(L.nsync_dll_is_empty_(h)) != (len(fwd) == 0): return None, 'is_empty wrong for %s' % fwd
            if len(set(fwd)) != len(fwd): return None, 'element twice in a list %s' % fwd
            lists.append(tuple(fwd)); seen.update(fwd)
        if set(lists[0]) & set(lists[1]): return None, 'lists share an element'
        rings = set()
        for i in range(self.n):
            if i in seen: continue
            r, j, guard = [], i, 0
            while guard <= self.n:
                r.append(j); seen.add(j)
                nx = self.idx(self.arr[j].next)
                if self.idx(self.arr[nx].prev) != j: return None, 'next/prev links inconsistent at element %d' % j
                j = nx; guard += 1
                if j == i: break
            if guard > self.n: return None, 'loose ring does not close'
            rings.add(canon_ring(r))
        for i in range(self.n):
            if self.arr[i].container != ctypes.addressof(self.arr[i]): return None, 'container pointer of element %d changed' % i
        return (lists[0], lists[1], frozenset(rings)), None

def run_C17(tier):
    t0 = time.time()
    shutil.rmtree(os.path.join(mcdriver.OUT, 'replays', 'C17'), ignore_errors=True)   # replays of an earlier run are not this run's
    L = build_dll()
    n = int(os.environ.get("VERIF_C17_N", 0)) or (5 if tier == "quick" else 7)
    init = DllModel(n)
    hist = {init.key(): ()}
    frontier = collections.deque([init.key()])
    transitions = 0
    viol = None
    samples = []
    depth_max = 0
    while frontier and not viol:
        k = frontier.popleft()
        m = DllModel.from_key(k)
        h = hist[k]
        for op in m.ops():
            transitions += 1
            real = DllReal(L, n)
            for o in h: real.do(o)
            # differential on the non-initial state: what the real structure holds before the step
            if transitions % 97 == 0:
                obs, err = real.observe()
                if err or obs != k:
                    viol = {'history': h, 'op': None, 'error': err or 'replayed state %s differs from model %s' % (obs, k)}; break
            real.do(op)
            exp = m.apply(op).key()
            obs, err = real.observe()
            if err or obs != exp:
                viol = {'history': list(h), 'op': op, 'error': err or 'after the operation the real lists are %s, the reference says %s' % (obs, exp)}
                break
            if op[0] == 'remove':
                e = real.arr[op[2]]
                if addr(e.next) != ctypes.addressof(e) or addr(e.prev) != ctypes.addressof(e):
                    viol = {'history': list(h), 'op': op, 'error': 'removed element is not a self-linked singleton'}; break
            if exp not in hist:
                hist[exp] = h + (op,)
                depth_max = max(depth_max, len(h) + 1)
                frontier.append(exp)
                if len(samples) < 4 and len(h) + 1 >= 4:
                    samples.append({'history': [list(o) for o in h + (op,)], 'reaches': [list(exp[0]), list(exp[1]), sorted(map(list, exp[2]))]})
    exit_code = 0
    if viol:
        p = write_replay('C17', 1, {'property': 'C17', 'elements': n, 'history': viol['history'], 'failing_op': viol['op'], 'error': viol['error'],
                                    'how_to_replay': 'python3 lib/seqchecks.py replay-dll <this file>'})
        print('VIOLATION property=C17 replay=%s' % p)
        print('  ' + viol['error'])
        exit_code = 1
    cov = {'states': len(hist), 'transitions': transitions, 'traces_validated_against_impl': transitions,
           'samples': samples or [{'history': [], 'reaches': 'initial'}],
           'elements': n, 'list_heads': 2, 'max_depth_of_shortest_history': depth_max, 'exhaustive': not viol,
           'explanation': 'breadth-first search over all reachable abstract states (two sequences + rings of loose elements); every applicable make_first / make_last / splice_after (on loose rings) / remove from every state, each executed by the real dll.c on a fresh replay of the history reaching the state; after each step forward and backward traversals, is_empty, link consistency and container pointers are compared with the reference'}
    write_evidence('C17', tier, 'model_checking', cov, t0, 1 if viol else 0,
                   ['operations are applied only within their documented preconditions (element not already in the list; splice on distinct rings)',
                    'splice_after is exercised directly on head-less rings only (that is how nsync uses it), and indirectly through make_first/make_last'])
    print('C17 %s: %d elements, %d states, %d transitions, max depth %d, %.1fs' % (tier, n, len(hist), transitions, depth_max, time.time() - t0))
    return exit_code

def replay_dll(path):
    d = json.load(open(path))
    L = build_dll()
    real = DllReal(L, d['elements'])
    for o in d['history'] + ([d['failing_op']] if d['failing_op'] else []):
        real.do(tuple(o))
        print(o, '->', real.observe())
    return 0

if __name__ == '__main__' and len(sys.argv) > 2 and sys.argv[1] == 'replay-dll':
    sys.exit(replay_dll(sys.argv[2]))

# =====================================================================  C18
def build_time(d, cpp):
    exe = os.path.join(d, 'seq_time_' + ('cpp' if cpp else 'c'))
    src = [os.path.join(V, 'seq/seq_time.c'), os.path.join(REPO, 'internal/time_internal.c')]
    if cpp:
        cmd = ['g++', '-std=c++11', '-x', 'c++', '-O2', '-DNSYNC_USE_CPP11_TIMEPOINT', '-DNSYNC_ATOMIC_CPP11',
               '-I%s/platform/c++11.futex' % REPO, '-I%s/platform/c++11' % REPO] + INC + src + [os.path.join(REPO, 'platform/c++11/src/time_rep_timespec.cc'), '-o', exe]
    else:
        cmd = ['gcc', '-O2'] + INC + src + [os.path.join(REPO, 'platform/posix/src/time_rep.c'), '-o', exe]
    r = subprocess.run(cmd, stderr=subprocess.PIPE, text=True)
    if r.returncode:
        raise mcdriver.FrameworkError('cannot build seq_time: ' + r.stderr[-2000:])
    return exe

def run_C18(tier):
    t0 = time.time()
    shutil.rmtree(os.path.join(mcdriver.OUT, 'replays', 'C18'), ignore_errors=True)   # replays of an earlier run are not this run's
    d = scratch()
    from concurrent.futures import ThreadPoolExecutor
    jobs = []
    for cpp in (False, True):
        exe = build_time(d, cpp)
        jobs.append((cpp, [exe, 'grid']))
        if tier == 'thorough':
            step = 1 << 27
            for which in ('ms', 'us'):
                for lo in range(0, 1 << 32, step):
                    jobs.append((cpp, [exe, which, str(lo), str(min(lo + step, 1 << 32))]))
    def work(j):
        r = subprocess.run(j[1], stdout=subprocess.PIPE, text=True)
        try:
            return j, json.loads(r.stdout.strip().splitlines()[-1])
        except Exception:
            return j, {'evaluations': 0, 'nontrivial': 0, 'failures': 1, 'first': 'checker crashed: exit %d' % r.returncode}
    evals = nontriv = 0
    viol = []
    with ThreadPoolExecutor(max_workers=mcdriver.NPROC) as ex:
        for j, res in ex.map(work, jobs):
            evals += res['evaluations']; nontriv += res['nontrivial']
            if res['failures']:
                viol.append({'build': 'C++' if j[0] else 'C', 'argv': j[1][1:], 'failures': res['failures'], 'first_failure': res['first']})
    code = 0
    for i, v in enumerate(viol[:5]):
        p = write_replay('C18', i + 1, dict(v, property='C18', how_to_replay='build seq/seq_time.c as lib/seqchecks.py:build_time does and run it with argv'))
        print('VIOLATION property=C18 replay=%s' % p); print('  %s build: %s' % (v['build'], v['first_failure']))
        code = 1
    cov = {'evaluations': evals, 'distinct_nontrivial': nontriv,
           'rule': 'boundary grid: 19 seconds values (0, +-1, +-2, +-(2^31-1), +-2^31, +-(2^31+1), +-1e12, +-2^61, int64 extremes) x 7 nanosecond values (0,1,2,499999999,500000000,999999998,999999999): all ordered pairs for cmp/add/sub (pairs whose seconds field overflows excluded), triples of every 5th value for transitivity, nsync_time_s_ns on the grid, nsync_time_ms/us on 23 boundary arguments' + ('; thorough: ALL 2^32 arguments of nsync_time_ms and of nsync_time_us' if tier == 'thorough' else '') + '; C object (time_rep.c) and C++ object (time_rep_timespec.cc); non-trivial = pair with a != b whose operation is defined, or scale argument >= 1000',
           'samples': [{'a': [2147483648, 999999999], 'b': [-2147483649, 1], 'checked': 'cmp, add, sub, (a+b)-b against __int128'}, {'nsync_time_ms': 4294967295}],
           'exhaustive': True, 'builds': ['C', 'C++11']}
    write_evidence('C18', tier, 'exploration', cov, t0, len(viol), ['time_t is 64-bit and nsync_time is struct timespec (both builds in this sandbox)'])
    print('C18 %s: %d evaluations (%d non-trivial), %d failing runs, %.1fs' % (tier, evals, nontriv, len(viol), time.time() - t0))
    return code

# =====================================================================  C15
COMMON_SRC = ['internal/%s.c' % b for b in ('common', 'counter', 'cv', 'debug', 'dll', 'mu', 'mu_wait', 'note', 'once', 'sem_wait', 'time_internal', 'wait')]
C_OS_SRC = ['platform/posix/src/nsync_panic.c', 'platform/posix/src/per_thread_waiter.c', 'platform/posix/src/time_rep.c', 'platform/posix/src/yield.c', 'platform/linux/src/nsync_semaphore_futex.c']
CPP_OS_SRC = ['platform/linux/src/nsync_semaphore_futex.c', 'platform/posix/src/per_thread_waiter.c', 'platform/c++11/src/yield.cc', 'platform/c++11/src/time_rep_timespec.cc', 'platform/c++11/src/nsync_panic.cc']

def build_real(d, cpp):
    """The library exactly as CMakeLists.txt builds it (same sources, include order and definitions), no hook."""
    exe = os.path.join(d, 'seq_deadline_' + ('cpp' if cpp else 'c'))
    srcs = [os.path.join(REPO, s) for s in COMMON_SRC + (CPP_OS_SRC if cpp else C_OS_SRC)] + [os.path.join(V, 'seq/seq_deadline.c')]
    if cpp:
        cmd = ['g++', '-std=c++11', '-x', 'c++', '-O1', '-g', '-DNSYNC_USE_CPP11_TIMEPOINT', '-DNSYNC_ATOMIC_CPP11',
               '-I%s/platform/c++11.futex' % REPO, '-I%s/platform/c++11' % REPO] + INC + srcs + ['-lpthread', '-o', exe]
    else:
        cmd = ['gcc', '-O1', '-g'] + INC + srcs + ['-lpthread', '-o', exe]
    r = subprocess.run(cmd, stderr=subprocess.PIPE, text=True)
    if r.returncode:
        raise mcdriver.FrameworkError('cannot build the real library for C15: ' + r.stderr[-3000:])
    return exe

EP_NAMES = ["cv_wait /", "cv_wait+note", "cv_wait(reader)", "mu_wait(cond false)", "mu_wait(cond true)", "mu_wait+note", "note_wait", "counter_wait", "wait_n{note}", "wait_n{counter}", "wait_n{cv}", "wait_n{5 objects}", "note_new(deadline)"]

def run_C15(tier):
    t0 = time.time()
    shutil.rmtree(os.path.join(mcdriver.OUT, 'replays', 'C15'), ignore_errors=True)   # replays of an earlier run are not this run's
    d = scratch()
    from concurrent.futures import ThreadPoolExecutor
    jobs = []
    dvals = [50] if tier == 'quick' else [50, 200]
    for cpp in (False, True):
        exe = build_real(d, cpp)
        for dm in dvals:
            for ep in EP_NAMES:
                jobs.append((cpp, dm, ep, [exe, str(dm), ep]))
    def work(j):
        r = subprocess.run(j[3], stdout=subprocess.PIPE, stderr=subprocess.PIPE, text=True)
        lines = r.stdout.strip().splitlines()
        try:
            summ = json.loads(lines[-1])
        except Exception:
            summ = {'cases': 0, 'nontrivial': 0, 'failures': 1}
            lines.append('FAIL %s: checker process died (exit %d)' % (j[2], r.returncode))
        return j, summ, [l for l in lines if l.startswith('FAIL')]
    cases = nontriv = 0
    fails = []
    # half the cores: the cases measure real time and must not be starved
    with ThreadPoolExecutor(max_workers=max(2, mcdriver.NPROC // 2)) as ex:
        for j, summ, fl in ex.map(work, jobs):
            cases += summ['cases']; nontriv += summ['nontrivial']
            for l in fl:
                fails.append({'build': 'C++' if j[0] else 'C', 'd_ms': j[1], 'case': l[5:]})
    known = [k for k in mcdriver.load_known_findings() if k.get('property') == 'C15']
    code = 0
    n = 0
    shown_known = set()
    for f in fails:
        hit = None
        for k in known:
            if k.get('msg') and __import__('re').search(k['msg'].replace('_', ' '), f['case']):
                hit = k; break
        if hit:
            if hit['what'] not in shown_known:
                shown_known.add(hit['what']); print('KNOWN-FINDING: property=C15 %s (e.g. %s build: %s)' % (hit['what'], f['build'], f['case']))
            continue
        n += 1
        if n <= 12:
            p = write_replay('C15', n, dict(f, property='C15', how_to_replay='lib/seqchecks.py builds seq/seq_deadline.c against the tree; run: seq_deadline_<c|cpp> <d_ms> "<entry point>"'))
            print('VIOLATION property=C15 replay=%s' % p); print('  %s build, d=%d ms: %s' % (f['build'], f['d_ms'], f['case']))
        code = 1
    cov = {'evaluations': cases, 'distinct_nontrivial': nontriv,
           'rule': 'every combination of entry point {cv wait, cv wait with note, cv wait in reader mode, mu_wait with false / true condition, mu_wait with note, note_wait, counter_wait, wait_n on a note / a counter / a cv / 5 objects (heap path), nsync_note_new with the deadline as the own deadline of the note (then an untimed wait, a poll, a child created under it and a notification of its parent)} x deadline {zero, +1ns, -1ns, +1s, -1s, -2^31 s, INT64_MIN s, now-d, now, now+d, no_deadline-1ns, no_deadline} x awaited event {never, already happened, happens at +d/2} x build {C, C++11}, d in %s ms; each case in a forked child on the real futex semaphore, clock and kernel; a case is non-trivial unless it is "no deadline and no event" (which must simply still be waiting after 3d)' % dvals,
           'samples': [{'entry': 'cv_wait', 'deadline': '-1s', 'event': 'never', 'expect': 'ETIMEDOUT within 2 s, no crash'}, {'entry': 'wait_n{5 objects}', 'deadline': 'now+d', 'event': 'happens at +d/2', 'expect': 'index of the notified note, not a timeout'}],
           'exhaustive': True, 'failing_cases': len(fails)}
    write_evidence('C15', tier, 'exploration', cov, t0, n, ['timing thresholds are generous (2 s for "promptly", 1 ms slack for "not early") so that machine load cannot raise an alarm', 'the real Linux futex and CLOCK_REALTIME of this sandbox'])
    print('C15 %s: %d cases (%d non-trivial), %d failing, %.1fs' % (tier, cases, nontriv, len(fails), time.time() - t0))
    return code
