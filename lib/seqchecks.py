"""sequential checks (C15, C17, C18, C19) -- filled in later"""
