"""progs -- enumeration of scenario programs per family (modulo thread permutation)."""
import itertools

def seqs(alphabet, maxops, minops=1):
    out = []
    for n in range(minops, maxops + 1):
        for t in itertools.product(alphabet, repeat=n):
            out.append(' '.join(t))
    return out

def programs(thread_seqs, nthreads, keep=None):
    """All multisets of nthreads per-thread sequences (thread permutations are the same program)."""
    out = []
    for combo in itertools.combinations_with_replacement(thread_seqs, nthreads):
        if keep is None or keep(combo):
            out.append('|'.join(combo))
    return out

def total_ops(combo):
    return sum(len(s.split()) for s in combo)

# ---------------- mu family ----------------
MU_ALPHA = ['L', 'R', 'T', 'Y']

def mu_programs(nthreads, maxops, max_total=None, need_block=True):
    def keep(c):
        if max_total is not None and total_ops(c) > max_total:
            return False
        s = ' '.join(c)
        if need_block and not ('L' in s or 'R' in s):
            return False      # only try-locks: nobody can ever block
        return True
    return programs(seqs(MU_ALPHA, maxops), nthreads, keep)

MU_RECYCLE = ['L X L|L L', 'L X R|L|L', 'R X L|L|R', 'L X L|L X L', 'L X L|R|L']

# ---------------- sem family ----------------
def sem_programs(thorough):
    out = []
    waiters = ['P', 'Pd', 'Pp', 'Pdr', 'Ppr', 'P P', 'Pd P', 'Pdr P', 'Ppr P', 'Pd Pd', 'Pdr Pdr', 'P Pd', 'P Pdr', 'Pp Pp', 'Pd Pp']
    if thorough:
        waiters += ['P P P', 'Pdr Pdr P', 'Pd Pdr Pp', 'Pdr P Pdr']
    for w in waiters:
        nw = len(w.split())
        need = nw
        for posters in (['V'], ['V', 'V'], ['V V'], ['V V', 'V'], ['V V V'], ['V', 'V', 'V']):
            nposts = sum(len(p.split()) for p in posters)
            if nposts < need or nposts > nw + 1:
                continue
            if len(posters) > 2 and not thorough:
                continue
            out.append('|'.join([w] + posters))
    return out

# ---------------- cv family ----------------
CV_CORE = ['Ww', 'Wr', 'Wg', 'Wn', 'Wwd', 'Wnd', 'Wrd']
CV_MORE = ['Cw', 'Cr', 'Wgd', 'Wwp', 'Cwd', 'Crd', 'Cnd']
CV_NOTE = ['WwN', 'WrN', 'CwdN', 'Cwx', 'Cwe', 'Cwc', 'CgN', 'Crx', 'Cwde', 'Cwpx']
CV_WAKERS = ['S', 'B', "S'", "B'"]

def cv_pairs(waiters, wakers, extra=()):
    out = []
    ws = sorted(waiters)
    for i, a in enumerate(ws):
        for b in ws[i:]:
            for k in wakers:
                out.append('|'.join([a, b, '@2 ' + k] + list(extra)))
    return out

def cv_singles(waiters, wakers, await_=True):
    out = []
    for a in waiters:
        for k in wakers:
            out.append('%s|%s%s' % (a, '@1 ' if await_ else '', k))
            if 'N' in a:
                out.append('%s|%s%s|N' % (a, '@1 ' if await_ else '', k))
    return out

def cv_c04(tier):
    """(program, P, E)"""
    J = []
    for p in cv_singles(CV_CORE + CV_MORE, CV_WAKERS): J.append((p, 4 if tier == 'quick' else 6, 1))
    for p in cv_singles(CV_CORE, ['s S', 'S S']): J.append((p, 3, 1))
    for p in cv_pairs(CV_CORE, CV_WAKERS): J.append((p, 2, 1))
    for p in cv_pairs(['Ww', 'Wr', 'Wn'], ['s S', 'S S', "S' S'"]): J.append((p, 2, 0))
    # three waiters, and four threads with a competing locker
    for p in ['Ww|Ww|Ww|@3 S', 'Wr|Wr|Ww|@3 S', 'Wr|Wr|Wr|@3 S', 'Wn|Ww|Wr|@3 S', 'Ww|Wr|Wg|@3 B', 'Wr|Wn|Wwd|@3 B', 'Ww|Wn|@2 S|L', 'Wr|Wr|@2 S|L', 'Wwd|Wn|@2 S\'|R', 'Wnd|Wr|@2 S|L']:
        J.append((p, 1 if tier == 'quick' else 2, 1 if 'd' in p else 0))
    for p in ['WwN|Ww|@2 S|N', 'WrN|Wn|@2 S|N', 'WwN|WwN|@2 S|N', 'CwdN|Ww|@2 S\'|N']:
        J.append((p, 1 if tier == 'quick' else 2, 1 if 'd' in p else 0))
    # a wake-up issued AFTER the critical section while an unrelated thread holds the mutex: the waiter is transferred
    # to the mutex queue, and that holder's unlock may run anywhere inside the transfer (seeded change C04e: MU_WAITING
    # published only when the transfer ends).  Needs three preemptions with three threads.
    for w in ['Ww', 'Wr', 'Wg', 'Wwd']:
        for k in ["S'", "B'"]:
            for l in ['L', 'R']:
                J.append(('%s|@1 %s|%s' % (w, k, l), 3, 1 if 'd' in w else 0))
    if tier == 'thorough':
        for p in cv_pairs(CV_CORE + ['Wgd', 'Cnd', 'Cwd'], CV_WAKERS): J.append((p, 3, 1))
        for p in cv_pairs(CV_CORE, CV_WAKERS): J.append((p, 2, 2))
    return J

CV_READER_SIGNAL = ['Ww|@1 F Sr|R', 'Cw|@1 Sr|R', 'Cw|@1 Sr|R R', 'Ww|Wr|@2 F Br|R', 'Ww|@1 F Sr|L', 'Cw|Cr|@2 Sr|R', 'Wg|@1 F Sr|R', 'Wn|@1 F Sr|R', 'Cw|@1 Br|R', 'Wwd|@1 F Sr|R']

def cv_c01(tier):
    """programs for C01 (every way to come to hold the mutex through a cv): a cheaper selection of the C04/C05 lists
    plus wake-ups issued inside reader sections (cv waiter transferred to the mutex queue while readers come and go)."""
    J = []
    q = tier == 'quick'
    for p in CV_READER_SIGNAL: J.append((p, 2 if p.count('|') == 2 or q else 3, 1 if 'd' in p else 0))
    for p in cv_singles(CV_CORE + CV_MORE, ['S', 'B', "S'"]): J.append((p, 3 if q else 5, 1))
    for p in cv_pairs(['Ww', 'Wr', 'Wn', 'Wg'], ['S', 'B']): J.append((p, 2, 0))
    for p in cv_pairs(['Ww', 'Wr', 'Wwd', 'Wnd'], ['S', "B'"]): J.append((p, 1 if q else 2, 1))
    for p in ['Ww|Ww|Ww|@3 S', 'Wr|Wr|Ww|@3 S', 'Ww|Wn|@2 S|L', 'Wr|Wr|@2 S|L', 'WwN|Ww|@2 S|N']: J.append((p, 1, 0))
    c5 = cv_c05('quick')
    J += [(p, min(P, 2 if q else 3), E) for (p, P, E) in c5[:: (3 if q else 1)]]
    return J

CV_SAME_NOTE = ['Cwe|Cwe', 'Cwe|Cre', 'Cwde|Cwe', 'Cwc|Cwc', 'Cwe|Cwc|L', 'Cwe|Cre|L', 'CwN|CwN|N', 'Cwe|Cwe|Cwe']

def cv_c05(tier):
    J = []
    # several cancellable waits on the SAME note, ended by the note's own expiry / notification at the same moment
    for p in CV_SAME_NOTE: J.append((p, (2 if p.count('|') == 1 else 1) if tier == 'quick' else (4 if p.count('|') == 1 else 2), 1))
    timed = ['Cwd', 'Cwp', 'Crd', 'Crp', 'Cgd', 'Cnd', 'Cnp', 'Wwd', 'Wrd']
    noted = ['CwN', 'CrN', 'CgN', 'Cwx', 'Crx', 'Cwe', 'Cre', 'Cwc', 'CwdN', 'Cwde', 'Cwdc', 'Cwpx', 'CrdN']
    Pq = 3 if tier == 'quick' else 5
    for a in timed + noted:
        for k in ['S', "S'", 'L', 'R', 's']:
            t = [a, k]
            if 'N' in a: t.append('N')
            J.append(('|'.join(t), Pq if len(t) == 2 else 2, 2 if tier == 'thorough' or len(t) == 2 else 1))
    for a, b in [('Cwd', 'Crd'), ('Cwd', 'CwN'), ('Cwe', 'Cwc'), ('Crd', 'Crx'), ('Cwd', 'Cwd'), ('CrN', 'CrN'), ('Cwde', 'Ww')]:
        for k in ['@2 S', 'L', '@1 s']:
            t = [a, b, k]
            if 'N' in a + b: t.append('N')
            J.append(('|'.join(t), 2 if len(t) == 3 else 1, 1 if tier == 'quick' else 2))
    # a timed / cancellable waiter that a signal's reader scan passes over (queue: reader, writer, this waiter)
    # must still end by itself at its deadline / note (seeded change C05d)
    for p in ['Wr|Ww|Cwd|@3 S', 'Wr|Cwd|Cwd|@3 S', 'Wr|Ww|Cwe|@3 S', 'Wr|Ww|CwN|@3 S|N', 'Wr|Wr|Crd|@3 S', 'Wr|Ww|Cgd|@3 S']:
        J.append((p, 1 if tier == 'quick' else 2, 1))
    return J

# ---------------- muwait family ----------------
MW_CORE = ['Mw1', 'Mr1', 'Mw2', 'Mw3', 'Mw4', 'Mw5', 'Mw6', 'Mr2', 'Mr3']

def mw_c06(tier):
    J = []
    Pq = 3 if tier == 'quick' else 5
    for a in MW_CORE + ['Mw1z', 'Mr1z']:
        for k in ['@1 A', '@1 B A', '@1 Z A', '@1 z A', '@1 R A', 'A']:
            if ('2' in a) and 'B' not in k: k = k.replace('A', 'B')
            J.append(('%s|%s' % (a, k), Pq, 0))
    ws = sorted(MW_CORE)
    for i, a in enumerate(ws):
        for b in ws[i:]:
            for k in ['@2 A B', '@2 B A', '@2 Z A B', '@2 A z B']:
                J.append(('|'.join([a, b, k]), 2, 0))
    # every ordered triple of conditions (writers), one variable set: the same-condition grouping must never
    # hide a waiter whose condition differs in function, argument or eq from its neighbours
    conds = '123456'
    for x in conds:
        for y in conds:
            for z in conds:
                for k in ('@3 B', '@3 A'):
                    J.append(('Mw%s|Mw%s|Mw%s|%s' % (x, y, z, k), 1 if tier == 'quick' else 2, 0))
    for p in ['Mr1|Mw6|Mr5|@3 B', 'Mw3|Mr6|Mw5|@3 B', 'Mr6|Mr1|Mw5|@3 A', 'Mr4|Mw1|Mr6|@3 A', 'Mw6|Mr6|Mw1|@3 B A']:
        J.append((p, 1 if tier == 'quick' else 2, 0))
    # a condition made true and then false again before the woken waiter has run: the waiter re-queues at the
    # front and must still pass the scan on to the waiters behind it
    for p in ['Mw1|Mw2|@2 A B|@2 a0', 'Mw1|Mr2|@2 B A|@2 a0', 'Mw2|Mw1|@2 A B|@2 b0', 'Mw1|Mw2|Mw2|@3 A B|@3 a0', 'Mr1|Mw2|@2 A B|@2 a0', 'Mw1|Mw2|@2 A B a0', 'Mw1|Mw2|@2 A|@2 a0 B']:
        J.append((p, 2 if p.count('|') <= 3 else 1, 0))
    # designated-waker / all-false paths: a woken waiter whose own section ends without wake-up
    for p in ['Mw1|Mw2z|@2 B|@2 A', 'Mr1|Mw2z|@2 B|@2 A', 'Mw1|Mr2|@2 A|@2 B', 'Mw1|Mw3|Mw4|@3 A', 'Mr1|Mr3|Mw2|@3 B A', 'Mw1|Mw2|Mw1|@3 A B',
              'Mw1|V|@2 S A', 'Mr1|V|@2 A|@2 S', 'Mw2|Mw1|@2 z|@2 A B', 'Mw1|Mw1|@2 R|@2 A', 'Mr1|Mr1|@2 R|@2 A', 'Mw1|Mw5|@2 Z|@2 A']:
        J.append((p, 1 if tier == 'quick' else 2, 0))
    # removal from the middle of the queue by timeout / cancellation, then the wake-up
    for p in ['Mw1|Mw1d|Mw1|@3 A', 'Mw1|Mw3d|Mw1|@3 A', 'Mw2|Mw1d|Mw1|@3 A B', 'Mr1|Mr1d|Mw1|@3 A', 'Mw1|Mw2d|Mw1|@3 A']:
        J.append((p, 1 if tier == 'quick' else 2, 1))
    for p in ['Mw1|Mw1N|@2 N A', 'Mw1|Mw3N|@2 N A', 'Mw2|Mw1N|Mw1|@3 N A B']:
        J.append((p, 2 if tier == 'quick' or p.count('|') > 2 else 3, 0))
    for p in ['Mw1|Mw1d|@2 A', 'Mw1|Mw3d|@2 A', 'Mr1|Mw1d|@2 A', 'Mw2|Mw1d|@2 B A', 'Mw1d|Mw1d|@2 A', 'Mw1|Mw2d|@2 A']:
        J.append((p, 2, 1 if tier == 'quick' else 2))
    if tier == 'thorough':
        for i, a in enumerate(ws):
            for b in ws[i:]:
                J.append(('|'.join([a, b, '@2 A', '@2 B']), 2, 0))
                J.append(('|'.join([a, b, '@2 A B']), 3, 0))
    # a reader still inside while a reader-mode waiter starts to wait and a writer is already queued: the waiter's
    # release must notice that it has become the last reader (seeded change C06e: decision hoisted out of the CAS loop)
    for p in ['R@1|Mr1|@1 Z', 'R@1|Mr1|@1 A', 'R@1|Mr2|@1 A B', 'R@1|Mr1d|@1 Z', 'R@1|Mr3|@1 A']:
        J.append((p, 2 if tier == 'quick' else 3, 1 if 'd' in p else 0))
    if tier == 'thorough':
        for p in ['R@1|Mr1|@1 Z|R', 'R@2|Mr1|Mr2|@2 A B', 'R@1|Mr1|@1 A|@1 Z']: J.append((p, 2, 0))
    return J

# a timed-out conditional wait that acquires through the timeout path must leave no queue bits behind: a plain
# locker arriving later on the then free (or read-held) mutex must get it
MW_FREE_MUTEX = ['Mr1d|@1 Z|R', 'Mr1d|@1 Z|@1 R', 'Mw1d|@1 Z|R', 'Mr1d|Z|R', 'Mr1p|Z|R', 'Mr1d|@1 Z|Z', 'Mr1x|@1 Z|R', 'Mr1d|@1 R|R']
MW_FREE_MUTEX4 = ['Mr1d|Mr1|@2 Z|R', 'Mw1d|Mr1|@2 Z|R', 'Mr1d|Mw2|@2 Z|R', 'Mr1d|Mr1d|@2 Z|R']

def mw_c05(tier):
    J = []
    for p in MW_FREE_MUTEX: J.append((p, 2 if tier == 'quick' else 3, 1))
    for p in MW_FREE_MUTEX4: J.append((p, 1, 1))
    Pq = 3 if tier == 'quick' else 5
    for a in ['Mw1d', 'Mr1d', 'Mw1p', 'Mr1p', 'Mw1N', 'Mr1N', 'Mw1x', 'Mr1x', 'Mw1dN', 'Mw1px', 'Mw3d']:
        for k in ['A', 'Z', 'R', '@1 A', '@1 Z', 'B']:
            t = [a, k]
            if 'N' in a: t.append('N')
            J.append(('|'.join(t), Pq if len(t) == 2 else 2, 2 if len(t) == 2 or tier == 'thorough' else 1))
    for p in ['Mw1d|Mw1d|@2 A', 'Mw1d|Mr1d|Z', 'Mw1d|Mw2|@2 B', 'Mr1d|Mr1d|R', 'Mw1N|Mw1d|@2 N|Z']:
        J.append((p, 2 if p.count('|') == 2 else 1, 1 if tier == 'quick' else 2))
    # stolen wake-up: the condition is made true, the waiter is woken, and the condition is falsified again before it
    # runs; it queues a second time inside the same call, and THEN its deadline / note ends the wait (seeded change
    # C05e: state sampled once per call instead of once per queueing)
    for p in ['Mw1d|@1 A a0', 'Mr1d|@1 A a0', 'Mw2d|@1 B b0', 'Mw1N|@1 A a0|N', 'Mw1dz|@1 A a0']:
        J.append((p, 3 if tier == 'quick' else 5, 1 if tier == 'quick' else 2))
    for p in ['Mw1d|@1 A|a0', 'Mr1d|@1 A|@1 a0', 'Mw1d|Mw1d|@2 A a0', 'Mw1N|@1 A|a0|N']:
        J.append((p, 1 if p.count('|') == 3 else 2, 1))
    return J

def mw_c04(tier):
    """cv waiters on a mutex that also has conditional waiters: wake-ups issued inside reader sections or
    with no lock held, after an unlock scan has set the all-conditions-false hint."""
    J = []
    P3 = 2 if tier == 'quick' else 3
    for p in ['Mw1|V|@2 Z F Sr', 'Mw1|V|@2 Z F Br', 'Mr1|V|@2 Z F Sr', 'Mw1|V|@2 F Sr', 'Mw2|V|@2 Z F G', 'Mw1|V|@2 Z S', 'Mw1|V|@2 F Z Sr A']:
        J.append((p, P3, 0))
    for p in ['Mw1|V|@2 Z F|@2 R G', 'Mw1|V|@2 Z F|@2 R Sr', 'Mw1|V|V|@3 Z F Sr', 'Mr1|V|V|@3 Z F Br', 'Mw1|V|@2 Z F Sr|@2 R', 'Mw1|Mw2|V|@3 Z F Sr', 'Mw1|V|@2 Z F G|R R']:
        J.append((p, 1 if tier == 'quick' else 2, 0))
    return J

# ---------------- once ----------------
def once_programs(tier):
    J = []
    kinds = ['O', 'Oa', 'Os', 'Oas']
    import itertools
    for a, b in itertools.combinations_with_replacement(kinds, 2):
        J.append(('%s|%s' % (a, b), 4 if tier == 'quick' else 6, 1))
        J.append(('%s %s|%s' % (a, a, b), 3 if tier == 'quick' else 4, 1))
    for a, b, c in itertools.combinations_with_replacement(kinds, 3):
        J.append(('%s|%s|%s' % (a, b, c), 2, 1 if tier == 'quick' else 2))
    for p in ['O|O2', 'O|Os2', 'O O2|O2 O', 'O|O|O2', 'O|Os|O2', 'Oa|Oa2|Os2', 'O|O|O|O', 'O|Os|Oa|Oas', 'O|O2|O|O2']:
        J.append((p, 2 if p.count('|') < 3 else 1, 1))
    # nested initialisation through the shared slot, and an initialiser that depends on another thread's
    # call on the slot-sharing object (seeded change C07d: once_mu held across the user function)
    for p in ['On', 'On|O2', 'On|O', 'On|On', 'On|Os2', 'Ow|O2', 'Ow|Os2', 'Ow|O2 O']:
        J.append((p, 2 if tier == 'quick' else 4, 1))
    for p in ['On|Os2|O', 'Ow|O2|O', 'On|On|O2']:
        J.append((p, 1 if tier == 'quick' else 2, 1))
    if tier == 'thorough':
        for a, b, c in itertools.combinations_with_replacement(kinds, 3):
            J.append(('%s|%s|%s' % (a, b, c), 3, 1))
        J.append(('O|Os|O2|Os2', 1, 1))
    return J

# ---------------- counter ----------------
def counter_programs(tier):
    J = []
    two = ['1:-|w', '1:-|wd', '1:-|wp', '1:-|n', '1:-|v', '1:- v|w', '2:- -|w', '2:-|- w', '1:+ - -|w', '1:+ -|- v', '2:- v|- v', '1:- w|w', '1:-|v w', '1:- wd|v', '2:-|wd v', '1:+|wp']
    for p in two: J.append((p, 4 if tier == 'quick' else 8, 1))
    three = ['1:-|+ -|w', '1:-|+ -|wd', '1:-|+ -|n', '1:- v|+ -|w', '0:+ -|+ -|w', '1:-|+ - v|w',  '2:-|-|w', '2:-|-|wd', '2:-|-|n', '1:-|w|w', '1:-|w|wd', '1:-|n|w', '1:-|w|v', '2:-|- v|w', '1:+ -|-|w', '2:- w|-|v', '1:-|wd|wp', '2:-|-|v v', '1:+ -|- w|v', '3:-|-|- w']
    for p in three: J.append((p, 2 if tier == 'quick' else 3, 1))
    four = ['1:-|+ -|w|w', '1:-|+ -|w|v', '2:-|-|w|w', '2:-|-|w|n', '2:-|-|wd|v', '1:-|w|w|w', '3:-|-|-|w']
    for p in four: J.append((p, 1 if tier == 'quick' else 2, 1 if 'd' in p else 0))
    return J

# ---------------- note ----------------
def note_trees():
    """all headers: tree shapes up to depth 3 / <= 4 notes, deadlines from {-,p,1,2}"""
    out = []
    D = '-p12'
    for r in D:
        out.append(r + 'xxx')
        for c in D:
            out.append(r + c + 'xx')
            for s in D:
                out.append(r + c + 'x' + s)
            for g in D:
                out.append(r + c + g + 'x')
                for s in D:
                    out.append(r + c + g + s)
    return out

def note_c08(tier):
    J = []
    # sequential part: every tree and deadline assignment; expiry, initial state, one notify, final states (observer)
    for h in note_trees():
        live = [l for l, ch in zip('RCGS', h) if ch != 'x' and not (l == 'G' and h[1] == 'x')]
        ops = ' '.join('e%s i%s' % (l, l) for l in live)
        J.append(('%s:%s' % (h, ops), 0, 1))
        if tier == 'thorough' or h.count('p') == 0:
            for l in live:
                J.append(('%s:n%s %s' % (h, l, ' '.join('i' + x for x in live)), 0, 0))
    conc = ['----:nR|nC|wR', '----:nC|nG|wC', '----:nR|nC|iR iR', '----:nR|nS|wR', '----:nR|fC|wR', '----:nR|nC|wR|wC', '----:nR|kR', '--xx:nR|kR|kR', '----:nC|kC|wG', '----:nR|kC|kS', '--xx:nR|kR|iR', '----:nR|iG|wG', '----:nC|iG iR|wG', '----:nC|wG|wS', '--1-:wG|iG|iC', '-1--:wG|weG|iR', '----:nR|nR|iC', '----:nR|nC|wG', '----:nC|nG|iG iG',
            '----:nR|kC|iG', '----:nG|kC|wG', '-2-1:wS|wdR|iS', '----:nR|wC|wG|wS', '--2-:nC|wG|wdG', '1---:wG|wS|iR', '----:iG iG|nR|iG']
    for p in conc:
        J.append((p, (2 if p.count('|') < 3 else 1) if tier == 'quick' else (3 if p.count('|') < 3 else 2), 1 if any(c in p.split(':')[0] for c in '12') or 'wd' in p or 'we' in p else 0))
    return J

def note_c09(tier):
    J = []
    progs = ['--xx:nC|nC|iR fR', '--xx:nC|nC|fR', '----:nG|nG|fC', '----:nR|fC', '----:nR|fC|iG', '----:nC|fC', '----:fC|nG', '----:fC|fS|nR', '----:fC|kR|nG',
             '----:fG|nC|iR', '----:fC|iG|nR', '----:nG|nC|fR', '----:fC|wG|nR', '--1-:fC|wG', '-1--:fC|wG|iR', '----:kC|kC|nR', '----:kG|nC|fS', '----:fC fG|nR', '----:fG fC|nR|iS',
             '----:nG|nG|nC', '----:nC|nR|fG', '----:fS|fC|fG', '----:nG|fC|fS|nR', '----:nC|nC|fR|iG', '----:kC|fG|nR|iS',
             '---x:fR|fC', '---x:fR|fC|iG', '----:fR|fC|fS', '----:fC|fR|nG', '---x:fC|fR|wG', '----:nR|fC|wG', '----:nR|fC|fS', '-1--:fC|wG|iR', '----:fC|nR|nR', '----:fC|fG|nR|fS',
             '----:nR fR|fC|nG', '----:nR fR|fC|fG', '----:nR fR|fC|wG', '---x:nR fR|fC|nG', '----:nC fC|fG|nG', '----:nR fR|fS|fC',
             # creation of a child racing with a notification of the parent; the parent is then freed and the kept
             # child afterwards (seeded change C09e)
             '----:KR QR|nR aR fR', '----:KC QC|nR aC fC', '----:KC QC|nC aC fC|iR', '--xx:KR QR|KR QR|nR aR fR', '----:KG QG|fC|nR aG fG']
    for p in progs:
        n = p.count('|') + 1
        if tier == 'quick': P = 3 if n == 2 else 2 if n == 3 else 1
        else: P = 6 if n == 2 else 3 if n == 3 else 2
        J.append((p, P, 1 if any(c in p.split(':')[0] for c in '12') else 0))
    return J

# ---------------- waitn ----------------
def waitn_c11(tier):
    J = []
    two = ['Wa|na', 'Wad|na', 'Wap|na', 'Wc|dc', 'Wcd|dc', 'Wab|nb', 'Wacd|dc', 'Wabeck|dk', 'Wabeckd|ne', 'Wvd|@1 S', "Wvd|@1 S'", 'Wv|@1 B', 'Wav|@1 S', 'Wvad|na', 'Wckp|dk',
           'Wabekv|@1 S', "Wabekvd|@1 S'", 'Wvabek|@1 B', 'Wabekv|S', 'Wvcabd|@1 S', 'Wabv|@1 S', 'Wabcv|S']
    for p in two: J.append((p, 3 if tier == 'quick' else 5, 1 if p.split('|')[0][-1] in 'dp' else 0))
    three = ['Wabekv|@1 S|nb', 'Wabekv|Vw|@2 S', 'Wvabek|@1 S\'|dk', 'Wab|na|nb', 'Wacd|na|dc', 'Wabeckd|nb|dk', 'Wa|Wa|na', 'Wad|Wab|na', 'Wav|@1 na|@1 S', "Wvd|Vw|@2 S", 'Wvd|Wvd|@2 S', 'Wv|Wv|@2 B', 'Wvc|@1 dc|@1 S\'', 'Wck|dc|dk', 'Wabeck|Wkceba|nb', 'Wad|na|Wa', 'Wvbd|Vw|@2 S']
    for p in three: J.append((p, 2, 1 if 'd' in p.replace('dc', '').replace('dk', '') else 0))
    four = ['Wab|Wba|na|nb', 'Wv|Vw|@2 S|@2 S', 'Wacd|Wck|dc|dk', 'Wavd|Vw|@2 S|na']
    for p in four: J.append((p, 1 if tier == 'quick' else 2, 1 if 'd' in p.replace('dc', '').replace('dk', '') else 0))
    if tier == 'thorough':
        for p in three: J.append((p, 3, 1 if 'd' in p.replace('dc', '').replace('dk', '') else 0))
    # a note with its own expiry (D1) earlier than the call's deadline (D2) in the set: the sleep must end when ANY object
    # becomes ready, not at that expiry (seeded change C11f: minimum ready time computed against the wrong bound); judged
    # by the idle rule: when no thread can run and only the clock is left, nobody may sleep with a ready object
    for p in ['WceD|dc', 'WaeD|na', 'WcebD|dc', 'WeaD|na', 'WekD|dk', 'WeD']:
        J.append((p, 3, 0)); J.append((p, 2, 2))
    J.append(('WceD|Wce|dc', 2, 0))
    return J

# ---------------- refcnt ----------------
def refcnt_programs(tier):
    J = []
    ends = ['D', 'Du']
    pre = ['', 'L ', 'R ', 'T ']
    import itertools
    th = [p + e for p in pre for e in ends]
    for a, b in itertools.combinations_with_replacement(th, 2): J.append(('%s|%s' % (a, b), 99 if tier == 'thorough' else 5, 0))
    for c in itertools.combinations_with_replacement(th, 3): J.append(('|'.join(c), 2 if tier == 'quick' else 3, 0))
    for p in ['L D|L D|D|D', 'R D|R D|L D|D', 'D|D|D|Du', 'L D|T D|R Du|D']: J.append((p, 1 if tier == 'quick' else 2, 0))
    # a conditional wait that times out (leaving the queue empty) right before the unlock that drops the reference
    for p in ['Dm|D', 'Dm|Du', 'Dm|L D', 'Dm|R D', 'M D|D', 'M D|L D', 'Dm|Dm', 'M Dm|D']: J.append((p, 3 if tier == 'quick' else 5, 1))
    for p in ['Dm|D|D', 'Dm|L D|D', 'M D|D|R D', 'Dm|Dm|D']: J.append((p, 2, 1))
    return J
