"""progs -- enumeration of scenario programs per family (modulo thread permutation)."""
import itertools

def seqs(alphabet, maxops, minops=1):
    out = []
    for n in range(minops, maxops + 1):
        for t in itertools.product(alphabet, repeat=n):
            out.append(' '.join(t))
    return out

def programs(thread_seqs, nthreads, keep=None):
    """All multisets of nthreads per-thread sequences (thread permutations are the same program)."""
    out = []
    for combo in itertools.combinations_with_replacement(thread_seqs, nthreads):
        if keep is None or keep(combo):
            out.append('|'.join(combo))
    return out

def total_ops(combo):
    return sum(len(s.split()) for s in combo)

# ---------------- mu family ----------------
MU_ALPHA = ['L', 'R', 'T', 'Y']

def mu_programs(nthreads, maxops, max_total=None, need_block=True):
    def keep(c):
        if max_total is not None and total_ops(c) > max_total:
            return False
        s = ' '.join(c)
        if need_block and not ('L' in s or 'R' in s):
            return False      # only try-locks: nobody can ever block
        return True
    return programs(seqs(MU_ALPHA, maxops), nthreads, keep)

MU_RECYCLE = ['L X L|L L', 'L X R|L|L', 'R X L|L|R', 'L X L|L X L', 'L X L|R|L']

# ---------------- sem family ----------------
def sem_programs(thorough):
    out = []
    waiters = ['P', 'Pd', 'Pp', 'Pdr', 'Ppr', 'P P', 'Pd P', 'Pdr P', 'Ppr P', 'Pd Pd', 'Pdr Pdr', 'P Pd', 'P Pdr', 'Pp Pp', 'Pd Pp']
    if thorough:
        waiters += ['P P P', 'Pdr Pdr P', 'Pd Pdr Pp', 'Pdr P Pdr']
    for w in waiters:
        nw = len(w.split())
        need = nw
        for posters in (['V'], ['V', 'V'], ['V V'], ['V V', 'V'], ['V V V'], ['V', 'V', 'V']):
            nposts = sum(len(p.split()) for p in posters)
            if nposts < need or nposts > nw + 1:
                continue
            if len(posters) > 2 and not thorough:
                continue
            out.append('|'.join([w] + posters))
    return out
