"""properties -- what is enumerated, with which budgets, for each property and tier.
Budgets are chosen from measured costs (see DESIGN.md section 6); every tier also has a
global wall-clock deadline after which it reports exhaustive:false instead of running on."""
import time, sys, os
import mcdriver, progs, seqchecks
from mcdriver import Job

QUICK_WALL = 170       # seconds: scheduling of new programs stops after this
THOROUGH_WALL = 1500
DEEPEN_UNTIL = 1000     # thorough tiers: re-exploration with larger preemption budgets goes on until this many seconds
ASSUME_MC = [
    'schedules are sequentially consistent interleavings of atomic operations (no weak-memory values)',
    'environment models (futex, clock, allocator, binary semaphore) are as described in DESIGN.md section 5; the futex model is compared with the real kernel by env-conformance',
    '128-bit state hashes: a collision could hide a state (probability < 1e-20 at the state counts reported)',
    'bounds: only the thread counts, operations per thread, preemption budget P and environment budget E listed under coverage.budgets',
]

def wall(tier):
    return QUICK_WALL if tier == 'quick' else THOROUGH_WALL

def both_sems(jobs):
    out = []
    for j in jobs:
        out.append(j)
        out.append(Job('c-binsem', j.family, j.program, j.P, j.E, j.flags, j.defs, None, j.note))
    return out

# ---------------------------------------------------------------- helpers
def J_(cfg, fam, triples, flags=()):
    return [Job(cfg, fam, p, P, E, flags) for (p, P, E) in triples]

def dedupe(jobs):
    seen, out = set(), []
    for j in jobs:
        k = j.key()
        if k not in seen:
            seen.add(k); out.append(j)
    return out

RACE_FAMILIES = ('mu', 'cv', 'muwait', 'note', 'counter', 'waitn', 'once', 'refcnt')
def race_pass(jobs, tier):
    """The serialising scheduler interrupts threads only at atomic operations, futex calls and yields, so two plain
    accesses that race between such points are invisible to it (the interleaving that separates them is never
    produced).  As for any scheduler of this kind, unsynchronised accesses are therefore caught separately: the same
    programs are run once more, stateless, with the vector-clock happens-before monitor of C03 (P <= 1: the monitor
    judges ordering, not timing, so it does not need the racy interleaving itself).  A data race among nsync's own
    fields is reported as a violation of the property being checked."""
    out, seen = [], set()
    for j in jobs:
        if j.cfg != 'c-futex' or j.tag or j.family not in RACE_FAMILIES or '--strict' in j.flags or '--hb' in j.flags: continue
        k = (j.family, j.program)
        if k in seen: continue
        seen.add(k)
        two = j.program.count('|') == 1
        # stateless runs grow fast: every single preemption for two-thread programs, the default schedule (every thread
        # runs until it blocks) for larger ones -- the monitor compares vector clocks, so a race between two accesses is
        # reported from any schedule that executes both, however far apart
        out.append(Job('c-futex', j.family, j.program, min(j.P, 1) if two else 0, min(j.E, 1) if two else 0, tuple(j.flags) + ('--hb', '--hb-scope=cut'), j.defs, None, 'race pass'))
    return out

def generic(prop, tier, jobs, note, sample_every=25, level='model_checking', extra_cov=None, deepen=True, race=True):
    t0 = time.time()
    jobs = dedupe(jobs)
    if race: jobs = jobs + race_pass(jobs, tier)
    # a single program may not hold the tier hostage: it is capped (and reported as capped) after this long
    res, skipped = mcdriver.run_jobs(jobs, wall(tier), per_job_cap_s=(100 if tier == 'quick' else 600), sample_every=sample_every)
    rounds = None
    if tier == 'thorough' and not skipped and deepen:
        bonus, rounds = mcdriver.deepen(res, t0 + DEEPEN_UNTIL, {j.key() for j in jobs})
        res = res + bonus
    return mcdriver.finish(prop, tier, level, res, skipped, t0, assumptions=ASSUME_MC, technique_note=note, extra_cov=extra_cov, deepening=rounds)

# ---------------------------------------------------------------- C01
def run_C01(tier):
    q = tier == 'quick'
    J = []
    for p in progs.mu_programs(2, 2): J.append(Job('c-futex', 'mu', p, 3 if q else 6, 0))
    for p in progs.mu_programs(3, 1): J.append(Job('c-futex', 'mu', p, 2 if q else 3, 0))
    for p in progs.mu_programs(4, 1): J.append(Job('c-futex', 'mu', p, 1 if q else 2, 0))
    J += J_('c-futex', 'cv', progs.cv_c01(tier))
    step = 3 if q else 1
    J += J_('c-futex', 'muwait', [(p, min(P, 2) if q else P, E) for (p, P, E) in progs.mw_c06('quick')[::step]])
    J += J_('c-futex', 'muwait', [(p, min(P, 2) if q else P, E) for (p, P, E) in progs.mw_c05('quick')[::step]])
    J += J_('c-futex', 'muwait', progs.mw_c04('quick'))
    J += J_('c-futex', 'waitn', [t for t in progs.waitn_c11('quick') if 'v' in t[0].split('|')[0]])
    if q:
        # the binary-semaphore flavour on every other program of the concurrent families (all of them in thorough)
        B = [Job('c-binsem', j.family, j.program, j.P, j.E, j.flags) for j in J[::2]]
    else:
        B = [Job('c-binsem', j.family, j.program, j.P, j.E, j.flags) for j in J]
    # the long-wait escalation changes the acquisition test of the woken thread (seeded change C01e): writer / reader
    # victims among readers and writers with LONG_WAIT_THRESHOLD reduced, and the scripted strategies at the real one
    S = []
    for T in ([1] if q else [1, 2]):
        defs = '-DNSYNC_VERIF_LONG_WAIT_THRESHOLD=%d' % T
        k = T + 2
        for p in ['V|R%d|L%d' % (k, k), 'V|R%d|R%d' % (k, k), 'Vr|L%d|R%d' % (k, k), 'V|T%d|R%d' % (k, k)]:
            S.append(Job('c-futex', 'starve', p, 2, 0, (), defs, 'c-futex.t%d' % T))
            S.append(Job('c-binsem', 'starve', p, 2, 0, (), defs, 'c-binsem.t%d' % T))
    for p in ['wR:fixed', 'wR:alt', 'rL:fixed', 'wL:fixed']:
        for cfg in ('c-futex', 'c-binsem'):
            S.append(Job(cfg, 'adversary', p, 1, 0, ('--strict',)))
    return generic('C01', tier, J + B + S,
        'DFS over scheduler / clock choices of the real mu.c, mu_wait.c, cv.c, wait.c; oracle: shadow occupancy (harness level at every acquire/return-from-wait, and at nsync\'s own AnnotateRWLockAcquired points) asserted at every entry')

# ---------------------------------------------------------------- C02
def jobs_mu(tier):
    J = []
    if tier == 'quick':
        for p in progs.mu_programs(2, 2): J.append(Job('c-futex', 'mu', p, 4, 0))
        for p in progs.mu_programs(3, 1): J.append(Job('c-futex', 'mu', p, 3, 0))
        for p in progs.mu_programs(3, 2, max_total=4): J.append(Job('c-futex', 'mu', p, 2, 0))
        for p in progs.mu_programs(4, 1): J.append(Job('c-futex', 'mu', p, 1, 0))
        for p in progs.MU_RECYCLE: J.append(Job('c-futex', 'mu', p, 2, 0))
    else:
        for p in progs.mu_programs(2, 2): J.append(Job('c-futex', 'mu', p, 99, 0))
        for p in progs.mu_programs(3, 1): J.append(Job('c-futex', 'mu', p, 4, 0))
        for p in progs.mu_programs(3, 2): J.append(Job('c-futex', 'mu', p, 3, 0))
        for p in progs.mu_programs(3, 2, max_total=4): J.append(Job('c-futex', 'mu', p, 4, 0))
        for p in progs.mu_programs(4, 1): J.append(Job('c-futex', 'mu', p, 3, 0))
        for p in progs.mu_programs(4, 2, max_total=5): J.append(Job('c-futex', 'mu', p, 2, 0))
        for p in progs.MU_RECYCLE: J.append(Job('c-futex', 'mu', p, 3, 0))
    J = both_sems(J)
    # scripted long schedules at the real LONG_WAIT_THRESHOLD (adversary family): progress must survive the
    # interplay of the long-wait bit with waiters that were woken early but run late
    for cfg in ('c-futex', 'c-binsem'):
        # plain lockers arriving after a conditional wait that timed out (C02: nobody may sleep on a free mutex)
        for p in progs.MW_FREE_MUTEX: J.append(Job(cfg, 'muwait', p, 2 if tier == 'quick' else 3, 1))
        for p in progs.MW_FREE_MUTEX4: J.append(Job(cfg, 'muwait', p, 1, 1))
        for p in ('wL:late', 'wL:alt', 'wR:alt', 'rL:fixed'):
            J.append(Job(cfg, 'adversary', p, 1 if tier == 'quick' else (2 if p == 'wL:late' else 1), 0, ('--strict',)))
    return J

def run_C02(tier):
    t0 = time.time()
    J = jobs_mu(tier)
    J = J + race_pass(J, tier)
    res, skipped = mcdriver.run_jobs(J, wall(tier), per_job_cap_s=(100 if tier == 'quick' else 600), sample_every=40)
    rounds = None
    if tier == 'thorough' and not skipped:
        bonus, rounds = mcdriver.deepen(res, t0 + DEEPEN_UNTIL, {j.key() for j in J})
        res = res + bonus
    return mcdriver.finish('C02', tier, 'model_checking', res, skipped, t0, assumptions=ASSUME_MC, deepening=rounds,
        technique_note='stateless-by-re-execution DFS over scheduler choices of the real mu.c/common.c/semaphore code with visited-state pruning; oracle: any terminal state with an unfinished thread is a lost wake-up/deadlock; try-locks must not block')

# ---------------------------------------------------------------- C12
def run_C12(tier):
    t0 = time.time()
    k = 2 if tier == 'quick' else 6      # 6: measured to be saturated (E=5 and E=6 explore the same space for the largest program)
    J = [Job(c, 'sem', p, 99, k) for p in progs.sem_programs(tier == 'thorough') for c in (['c-futex'] if tier == 'quick' else ['c-futex', 'c11-futex', 'cpp-futex'])]
    res, skipped = mcdriver.run_jobs(J, wall(tier), sample_every=10)
    return mcdriver.finish('C12', tier, 'model_checking', res, skipped, t0, assumptions=ASSUME_MC,
        technique_note='complete interleaving exploration (no preemption bound) of nsync_semaphore_futex.c with one waiter and 1-3 posters, every placement of up to k (quick 2, thorough 6 = saturated: no program can consume more) injected EINTR/EAGAIN/early-ETIMEDOUT returns and clock ticks (k = E budget)')


# ---------------------------------------------------------------- C03
HB_CFGS = ['c-futex', 'c11-futex', 'cpp-futex']
def hb_programs(tier):
    q = tier == 'quick'
    P2 = 2 if q else 3
    L = []
    # unlock/runlock -> lock/rlock, fast and slow paths, late arrivals that never sleep
    for p in ['L|L', 'L|R', 'R|L', 'L L|L', 'L|L|L', 'L|R|R', 'L|L|R', 'R|R|L', 'T|L', 'Y|L', 'L T|L', 'L X L|L']:
        L.append(('mu', p, P2 if p.count('|') == 2 else (4 if q else 6), 0))
    # blocking in a wait releases; signal -> woken waiter
    for p in ['Ww|@1 S', "Ww|@1 S'", 'Wr|@1 S', 'Wg|@1 S', 'Wn|@1 S', 'Ww|@1 B', 'Ww|S', 'Ww|Ww|@2 B', 'Ww|Wr|@2 S', 'Ww|L|@1 S', 'Wn|Ww|@2 B']:
        L.append(('cv', p, P2 if p.count('|') == 2 else (3 if q else 4), 0))
    for p in ['Wwd|@1 S', 'CwN|N', 'Cwd|L', 'WwN|@1 S|N']:
        L.append(('cv', p, 1 if q else 2, 1))
    for p in ['Mw1|@1 A', 'Mr1|@1 A', 'Mw1|A', 'Mw1|Mw2|@2 A B', 'Mw1|Mr1|@2 A', 'Mw1|@1 Z A', 'Mw1z|Mw2|@2 B A']:
        L.append(('muwait', p, P2 if p.count('|') == 2 else (3 if q else 4), 0))
    for p in ['Mw1d|@1 A', 'Mw1N|N|@1 A', 'Mw1d|Mw1|@2 A', 'Mr1d|Mw1|@2 A']:
        L.append(('muwait', p, 1 if q else 2, 1))
    for p in ['Wwd|Ww|@2 S', 'Wnd|Ww|@2 S', 'Wrd|Wr|@2 B']:
        L.append(('cv', p, 1, 1))
    for p in ['Wad|na', 'Wcd|dc']:
        L.append(('waitn', p, 2, 1))
    # once-function -> every return
    for p in ['O|O', 'O|Os', 'Os|Os', 'Oa|Oas', 'O|O|Os', 'O O|Os', 'Os|Oas|Os']:
        L.append(('once', p, 2 if p.count('|') == 2 else (3 if q else 4), 0 if 's' in p and 'O|' not in p else 1))
    # notify -> observation; zeroing decrement -> waiter
    for p in ['--xx:nR|iR', '--xx:nR|wR', '--xx:nR|iC', '--xx:nR|wC', '----:nR|wG', '----:nC|iG|wG', '--xx:nC|iC|wC']:
        L.append(('note', p, P2 if p.count('|') == 2 else (3 if q else 4), 0))
    for p in ['1:-|w', '1:-|v', '2:-|-|w', '1:-|n', '1:+ -|-|w', '2:- v|- w']:
        L.append(('counter', p, P2 if p.count('|') == 2 else (3 if q else 4), 0))
    for p in ['Wa|na', 'Wac|dc', 'Wab|na|nb', "Wv|@1 S"]:
        L.append(('waitn', p, P2 if p.count('|') == 2 else (3 if q else 4), 0))
    return L

def run_C03(tier):
    J = []
    for cfg in HB_CFGS:
        # the deeper thorough budgets on the default flavour; the other two atomic.h flavours and the
        # pass with the semaphore's orders downgraded differ from it only in the orders requested, which
        # the quick budgets already expose (stateless runs grow too fast to afford P+1 six times over)
        deep = (tier == 'thorough' and cfg == 'c-futex')
        for (fam, p, P, E) in hb_programs('thorough' if deep else 'quick'):
            J.append(Job(cfg, fam, p, P, E, ('--hb',)))
        for (fam, p, P, E) in hb_programs('quick'):
            J.append(Job(cfg, fam, p, P, E, ('--hb', '--sem-hb=off')))
    return generic('C03', tier, J,
        'stateless DFS (no state pruning) over schedules with a vector-clock happens-before monitor fed only by the memory_order argument of each instrumented atomic call (C++20 release-sequence rules; no edge for futex, scheduler or CPU); every plain access of client data and of nsync\'s own fields is checked; all three atomic.h flavours; second pass with the semaphore\'s own orders downgraded to relaxed',
        sample_every=15, extra_cov={'states_note': 'C03 runs are stateless: states counts scheduling decisions reached, not deduplicated states'})

# ---------------------------------------------------------------- C04 .. C11, C13, C14, C16
def run_C04(tier):
    J = J_('c-futex', 'cv', progs.cv_c04(tier)) + J_('c-binsem', 'cv', progs.cv_c04('quick')[::3])
    J += J_('c-futex', 'muwait', progs.mw_c04(tier)) + J_('c-binsem', 'muwait', progs.mw_c04('quick')[::2])
    J += J_('c-futex', 'cv', [(p, 2, 1 if 'd' in p else 0) for p in progs.CV_READER_SIGNAL])
    return generic('C04', tier, J, 'DFS over scheduler and clock choices of the real cv.c / wait.c / sem_wait.c; oracle: accounting of wake-ups by an observer at quiescence (DESIGN.md C04) plus the terminal-state progress rule')

def run_C05(tier):
    J = J_('c-futex', 'cv', progs.cv_c05(tier)) + J_('c-futex', 'muwait', progs.mw_c05(tier)) + J_('c-binsem', 'cv', progs.cv_c05('quick')[::3]) + J_('c-binsem', 'muwait', progs.mw_c05('quick')[::3])
    return generic('C05', tier, J, 'DFS over scheduler and clock choices (deadline vs note expiry vs wake-up in every order) of cv.c, mu_wait.c, sem_wait.c, note.c; oracle on every wait return: lock mode, reason vs virtual clock / note state, result 0 iff condition; no expired/cancelled waiter asleep at quiescence')

def run_C06(tier):
    J = J_('c-futex', 'muwait', progs.mw_c06(tier)) + J_('c-binsem', 'muwait', progs.mw_c06('quick')[::4])
    return generic('C06', tier, J, 'DFS over scheduler and clock choices of mu.c / mu_wait.c; oracle: obligation rule at quiescence (a waiter whose condition was made true by a section ended with nsync_mu_unlock is not asleep), and inside every condition callback the mutex word shows it held and no other thread is inside a write section')

def run_C07(tier):
    J = J_('c-futex', 'once', progs.once_programs(tier)) + J_('c-binsem', 'once', progs.once_programs('quick')[::3])
    return generic('C07', tier, J, 'DFS over scheduler and clock choices of once.c (timer polling driven by virtual clock ticks); oracle after every return: ran exactly once and completed; no blocking once done')

def run_C08(tier):
    J = J_('c-futex', 'note', progs.note_c08(tier))
    return generic('C08', tier, J, 'exhaustive enumeration of all trees of <= 4 notes x deadline assignments (sequential), and DFS over schedules of notifiers / pollers / waiters; oracle: per-note observation histories (monotonic, caused), state at quiescence asked through nsync_note_is_notified', sample_every=60)

def run_C09(tier):
    J = J_('c-futex', 'note', progs.note_c09(tier)) + J_('c-binsem', 'note', progs.note_c09('quick')[::2])
    return generic('C09', tier, J, 'DFS over schedules of notify / poll / create-child / free on a parent-child-grandchild family; oracle: liveness of every instrumented access and atomic (freed notes are poisoned arena blocks, never reused), progress, adoption (end-state rule)')

def run_C10(tier):
    J = J_('c-futex', 'counter', progs.counter_programs(tier)) + J_('c-binsem', 'counter', progs.counter_programs('quick')[::2])
    return generic('C10', tier, J, 'DFS over schedules of add / value / wait; oracle: brute-force linearizability of the returned values against an integer, progress at zero, no blocking after zero was observed')

def run_C11(tier):
    J = J_('c-futex', 'waitn', progs.waitn_c11(tier)) + J_('c-binsem', 'waitn', progs.waitn_c11('quick')[::2])
    J += J_('c-futex', 'cv', [t for t in progs.cv_c04('quick') if 'Wn' in t[0] or 'Cn' in t[0]][::2])
    return generic('C11', tier, J, 'DFS over scheduler and clock choices of wait.c with the note / counter / cv waitable implementations; oracles: returned index is ready, timeout is real, nobody sleeps with a ready object, no registration survives the call (dereferenced in dead frames / freed blocks by the observer, and nsync\'s own free-time assertions), mutex protocol')

def run_C13(tier):
    J = J_('c-futex', 'refcnt', progs.refcnt_programs(tier)) + J_('c-binsem', 'refcnt', progs.refcnt_programs('quick')[::3])
    wn = [t for t in progs.waitn_c11(tier)]
    J += J_('c-futex', 'waitn', wn)
    J += J_('c-futex', 'cv', [t for t in progs.cv_c05(tier) if any(x in t[0] for x in ('N', 'x', 'e', 'c'))][::2])
    J += J_('c-futex', 'cv', [t for t in progs.cv_c04('quick') if 'Wn' in t[0]][::2])
    J += J_('c-futex', 'cv', [(p, 2 if p.count('|') == 1 else 1, 1) for p in progs.CV_SAME_NOTE]) + J_('c-binsem', 'cv', [(p, 1, 1) for p in progs.CV_SAME_NOTE])
    J += J_('c-futex', 'muwait', [t for t in progs.mw_c05(tier) if 'N' in t[0]])
    return generic('C13', tier, J, 'DFS over scheduler and clock choices; oracle: the runtime liveness monitor on every instrumented plain access, atomic operation and futex argument: freed arena blocks (poisoned, never reused) and the dead part / whole stack of other fibers')

def run_C14(tier):
    J = []
    q = tier == 'quick'
    for T in ([1, 2] if q else [1, 2, 3]):
        defs = '-DNSYNC_VERIF_LONG_WAIT_THRESHOLD=%d' % T
        k = T + 2
        for v in ['V', 'Vr']:
            for b in ['L', 'R', 'T']:
                if v == 'Vr' and b == 'R': continue   # readers never exclude a reader
                p2 = '%s|%s%d|%s%d' % (v, b, k, b, k)
                J.append(Job('c-futex', 'starve', p2, 2 if q or T == 3 else 3, 0, (), defs, 'c-futex.t%d' % T))
                if b != 'T':
                    p3 = '%s|%s%d|L%d' % (v, b, k, k)
                    J.append(Job('c-futex', 'starve', p3, 2, 0, (), defs, 'c-futex.t%d' % T))
            J.append(Job('c-binsem', 'starve', '%s|L%d|L%d' % (v, k, k), 2, 0, (), defs, 'c-binsem.t%d' % T))
        # two reader victims: the only way to have two long waiters at once (readers are woken together); the shared
        # MU_LONG_WAIT bit is cleared by the first to acquire and must be set again by the other when it queues again
        J.append(Job('c-futex', 'starve', 'Vr|Vr|L%d' % k, 2 if q else 3, 0, (), defs, 'c-futex.t%d' % T))
        J.append(Job('c-binsem', 'starve', 'Vr|Vr|L%d' % k, 2, 0, (), defs, 'c-binsem.t%d' % T))
        if not q and T == 1:
            J.append(Job('c-futex', 'starve', 'Vr|Vr|L%d|L%d' % (k, k - 1), 2, 0, (), defs, 'c-futex.t%d' % T))
        if not q:
            J.append(Job('c-futex', 'starve', 'V|L%d|L%d|L%d' % (k, k, k), 1, 0, (), defs, 'c-futex.t%d' % T))
    # the real threshold (30): adversarial strategies scripted as the zero-deviation schedule, plus every
    # single (thorough: for one program every double) deviation from them
    for v in 'wr':
        for b in 'LRT':
            if v == 'r' and b == 'R': continue
            for st in ('fixed', 'alt', 'fresh'):
                p = '%s%s:%s' % (v, b, st)
                for cfg in ('c-futex', 'c-binsem'):
                    J.append(Job(cfg, 'adversary', p, 1, 0, ('--strict',)))
    for cfg in ('c-futex', 'c-binsem'):
        J.append(Job(cfg, 'adversary', 'wL:late', 1, 0, ('--strict',)))
    if not q:
        J.append(Job('c-futex', 'adversary', 'wL:alt', 2, 0, ('--strict',)))
    return generic('C14', tier, dedupe(J), 'DFS over schedules of a victim locker and 2-3 barging threads with LONG_WAIT_THRESHOLD reduced to 1..3 by the guarded hook; oracle at nsync\'s own acquisition events: once the victim\'s (T+1)-th sleep has begun no call that never slept acquires before the victim; at the real threshold 30: 15 adversarial strategies (fixed / alternating / fresh barger x victim and barger kinds) scripted as the default schedule and explored with all single deviations', sample_every=5)

def run_C16(tier):
    q = tier == 'quick'
    J = []
    base = ['L|L|dM', 'L|L|L|dM', 'R|R|L|dM', 'L|R|L|dm', 'R|L|dM dM', 'L|L|dM|dM', 'Ww|@1 S|dM', 'Ww|@1 S|dC', 'Ww|Wr|@2 S|dC', 'Ww|Ww|@2 B|dC', 'Wr|L|@1 S|dM', 'Ww|L|@1 S|dc dm', 'Wwd|@1 S|dC', 'Wwd|Ww|@2 S|dM']
    for p in base:
        n = p.count('|') + 1
        heavy = n >= 4 and 'W' in p
        J.append(Job('c-futex', 'cv', p, (2 if heavy else 3) if q else (3 if heavy else 4), 1 if 'd|' in p or 'Wwd' in p else 0))
        J.append(Job('c-binsem', 'cv', p, 2, 0))
    for kind in 'mc':
        for k in range(4):
            J.append(Job('c-futex', 'debugseq', '%s%d' % (kind, k), 1 if q else 2, 0))
    return generic('C16', tier, J, 'DFS over schedules of lockers / waiters / wakers with a thread calling the debug-state functions (all mutual-exclusion, progress and wake-up oracles in force); exhaustive n = 0..80 x 0..3 queued waiters x 4 functions against the untruncated reference with exact-size buffers between red zones', sample_every=4,
        race=False)   # the debug-state functions read the waiter lists without the spinlock when the word shows no waiters: a race nsync annotates as intended (IGNORE_RACES); what it may lead to is judged by the other oracles

TABLE = {
    'C15': seqchecks.run_C15, 'C17': seqchecks.run_C17, 'C18': seqchecks.run_C18,
    'C01': run_C01, 'C03': run_C03, 'C04': run_C04, 'C05': run_C05, 'C06': run_C06, 'C07': run_C07, 'C08': run_C08, 'C09': run_C09, 'C10': run_C10, 'C11': run_C11, 'C13': run_C13, 'C14': run_C14, 'C16': run_C16,
    'C02': run_C02,
    'C12': run_C12,
}

def run(prop, tier):
    try:
        return TABLE[prop](tier)
    except mcdriver.FrameworkError as e:
        print('FRAMEWORK-ERROR:', e, file=sys.stderr)
        return 2

# ---------------------------------------------------------------- C19
def run_C19(tier):
    import json, subprocess
    t0 = time.time()
    shapes = ['R', 'RC', 'RCG', 'RCS', 'RCGS', 'RS', 'RCGScz', 'Rc', 'Rcz', 'RCc', 'RSz', 'RCGc']
    nsmc = mcdriver.build('c-futex')
    J = []
    counted = {}
    for sh in shapes:
        r = subprocess.run([nsmc, '--family', 'alloc', '--program', '0:' + sh, '--P', '0', '--E', '0'], stdout=subprocess.PIPE, text=True)
        d = json.loads(r.stdout.strip().splitlines()[-1])
        n = int(list(d['outcomes'])[0].split('allocs=')[1].split()[0]) if d['outcomes'] else 0
        if n == 0:
            raise mcdriver.FrameworkError('could not count the allocations of shape ' + sh)
        counted[sh] = n
        for k in range(0, n + 1):
            J.append(Job('c-futex', 'alloc', '%d:%s' % (k, sh), 0, 0))
            if 'R' in sh and len(sh) <= 4:
                J.append(Job('c-futex', 'alloc', '%d:%s:c' % (k, sh), 2 if tier == 'quick' else 3, 0))
    res, skipped = mcdriver.run_jobs(J, wall(tier), sample_every=7)
    faults = sum(1 for j in J if not j.program.startswith('0:'))
    return mcdriver.finish('C19', tier, 'fault_enumeration', res, skipped, t0, assumptions=ASSUME_MC + ['the allocation that creates a thread\'s waiter record belongs to the mutex layer, not to the constructors, and is performed before the fault is armed'],
        technique_note='fault enumeration: for every scenario shape the constructors\' allocations are counted in a fault-free run and then each one is failed in turn; sequentially, and with a second thread polling the intended parent under DFS over schedules',
        extra_cov={'evaluations': len(J), 'distinct_nontrivial': faults, 'rule': 'scenario shapes ' + ', '.join('%s(%d allocations)' % (k, v) for k, v in counted.items()) + '; one run per failed allocation index (non-trivial = an allocation actually fails), plus the fault-free run; shapes of <= 4 objects also with a concurrent user of the parent'})
TABLE['C19'] = run_C19
