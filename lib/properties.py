"""properties -- what is enumerated, with which budgets, for each property and tier.
Budgets are chosen from measured costs (see DESIGN.md section 6); every tier also has a
global wall-clock deadline after which it reports exhaustive:false instead of running on."""
import time, sys, os
import mcdriver, progs
from mcdriver import Job

QUICK_WALL = 170       # seconds: scheduling of new programs stops after this
THOROUGH_WALL = 1500
ASSUME_MC = [
    'schedules are sequentially consistent interleavings of atomic operations (no weak-memory values)',
    'environment models (futex, clock, allocator, binary semaphore) are as described in DESIGN.md section 5; the futex model is compared with the real kernel by env-conformance',
    '128-bit state hashes: a collision could hide a state (probability < 1e-20 at the state counts reported)',
    'bounds: only the thread counts, operations per thread, preemption budget P and environment budget E listed under coverage.budgets',
]

def wall(tier):
    return QUICK_WALL if tier == 'quick' else THOROUGH_WALL

def both_sems(jobs):
    out = []
    for j in jobs:
        out.append(j)
        out.append(Job('c-binsem', j.family, j.program, j.P, j.E, j.flags, j.defs, None, j.note))
    return out

# ---------------------------------------------------------------- C02
def jobs_mu(tier):
    J = []
    if tier == 'quick':
        for p in progs.mu_programs(2, 2): J.append(Job('c-futex', 'mu', p, 4, 0))
        for p in progs.mu_programs(3, 1): J.append(Job('c-futex', 'mu', p, 3, 0))
        for p in progs.mu_programs(3, 2, max_total=4): J.append(Job('c-futex', 'mu', p, 2, 0))
        for p in progs.mu_programs(4, 1): J.append(Job('c-futex', 'mu', p, 1, 0))
        for p in progs.MU_RECYCLE: J.append(Job('c-futex', 'mu', p, 2, 0))
    else:
        for p in progs.mu_programs(2, 2): J.append(Job('c-futex', 'mu', p, 99, 0))
        for p in progs.mu_programs(3, 1): J.append(Job('c-futex', 'mu', p, 4, 0))
        for p in progs.mu_programs(3, 2): J.append(Job('c-futex', 'mu', p, 2, 0))
        for p in progs.mu_programs(3, 2, max_total=4): J.append(Job('c-futex', 'mu', p, 3, 0))
        for p in progs.mu_programs(4, 1): J.append(Job('c-futex', 'mu', p, 2, 0))
        for p in progs.MU_RECYCLE: J.append(Job('c-futex', 'mu', p, 3, 0))
    return both_sems(J)

def run_C02(tier):
    t0 = time.time()
    res, skipped = mcdriver.run_jobs(jobs_mu(tier), wall(tier), sample_every=40)
    return mcdriver.finish('C02', tier, 'model_checking', res, skipped, t0, assumptions=ASSUME_MC,
        technique_note='stateless-by-re-execution DFS over scheduler choices of the real mu.c/common.c/semaphore code with visited-state pruning; oracle: any terminal state with an unfinished thread is a lost wake-up/deadlock; try-locks must not block')

# ---------------------------------------------------------------- C12
def run_C12(tier):
    t0 = time.time()
    k = 2 if tier == 'quick' else 3
    J = [Job(c, 'sem', p, 99, k) for p in progs.sem_programs(tier == 'thorough') for c in (['c-futex'] if tier == 'quick' else ['c-futex', 'c11-futex', 'cpp-futex'])]
    res, skipped = mcdriver.run_jobs(J, wall(tier), sample_every=10)
    return mcdriver.finish('C12', tier, 'model_checking', res, skipped, t0, assumptions=ASSUME_MC,
        technique_note='complete interleaving exploration (no preemption bound) of nsync_semaphore_futex.c with one waiter and 1-3 posters, every placement of up to k injected EINTR/EAGAIN/early-ETIMEDOUT returns and clock ticks (k = E budget)')

TABLE = {
    'C02': run_C02,
    'C12': run_C12,
}

def run(prop, tier):
    try:
        return TABLE[prop](tier)
    except mcdriver.FrameworkError as e:
        print('FRAMEWORK-ERROR:', e, file=sys.stderr)
        return 2
