"""Engine self-tests, run by setup.sh and by `./check --selftest`:
   1. toy scenarios with known verdicts (every monitor must fire where it should and stay quiet where it should);
   2. the futex model against the real kernel (env-conformance);
   3. determinism: recorded schedules of several families re-executed twice must agree;
   4. the three failure modes of earlier spin-park rules stay fixed (programs that hung or raised bogus deadlocks)."""
import os, sys, json, subprocess, re, tempfile
import mcdriver
V = mcdriver.V

def nsmc(args, cfg='c-futex'):
    exe = mcdriver.build(cfg)
    r = subprocess.run([exe] + args, stdout=subprocess.PIPE, stderr=subprocess.PIPE, text=True, timeout=600)
    if r.returncode not in (0, 1):
        raise mcdriver.FrameworkError('nsmc %s: exit %d %s' % (args, r.returncode, r.stderr[-500:]))
    return json.loads(r.stdout.strip().splitlines()[-1])

TOY = [
    # program, extra flags, P, expected: None = clean, else regex that must match a violation
    ('race', ['--hb'], 2, r'data race'),
    ('norace', ['--hb'], 2, None),
    ('relacq', ['--hb'], 2, None),
    ('relaxed', ['--hb'], 2, r'data race'),
    ('race', [], 2, None),                 # without the monitor nothing may be reported
    ('uaf', [], 2, r'freed memory'),
    ('deadstack', [], 2, r'dead stack'),
    ('overrun', [], 1, r'overruns|outside any allocated block'),
    ('deadlock', [], 1, r'stuck|deadlock'),
    ('lostwake', [], 2, r'lost wake-up'),
    ('spin', [], 3, None),
    ('pollers', [], 3, None),
    ('cycle', [], 2, r'non-progress cycle'),   # retry loop without a yield that can never succeed
    ('rawspin', [], 2, None),                  # the same state recurrence while the thread that ends it can still run
    ('midpost', [], 3, None),                  # a foreign write in the middle of an iteration: the iteration never parks
    ('stalepost', [], 3, None),            # an iteration that slept in the kernel is never parked as a no-op spin
]
FAIRNESS = [   # (family, program, P, E): must finish with no violation and no horizon hit
    ('mu', 'L|L|L', 3, 0),                          # version-counter park rule raised a bogus deadlock here
    ('cv', 'Wrd|Wwd|@2 S', 2, 1),                   # timed-out pollers that write with zero net effect
    ('cv', 'Wr|Wr|Ww|@3 S', 1, 0),                  # two pollers un-parking each other
    ('muwait', 'Mw1d|Mw1|@2 A', 2, 1),
    ('once', 'O|Os|O', 2, 1),
]

def main():
    bad = 0
    for prog, flags, P, expect in TOY:
        d = nsmc(['--family', 'toy', '--program', prog, '--P', str(P), '--E', '0'] + flags)
        msgs = [v['msg'] for v in d['violations']]
        if expect is None:
            ok = not msgs and d['complete']
        else:
            ok = any(re.search(expect, m) for m in msgs)
        # the lost wake-up must be schedule-dependent: some executions complete, some do not
        if prog == 'lostwake':
            ok = ok and d['complete_execs'] > 0
        print('selftest toy %-10s %-6s expect %-28s -> %s' % (prog, ' '.join(flags), expect or 'clean', 'ok' if ok else 'FAILED %s' % msgs[:2]))
        bad += not ok
        if expect and ok:
            # every reported violation must replay identically
            v = [v for v in d['violations'] if re.search(expect, v['msg'])][0]
            exe = mcdriver.build('c-futex')
            r = subprocess.run([exe, '--family', 'toy', '--program', prog, '--P', str(P), '--E', '0'] + flags + ['--replay', v['schedule']], stdout=subprocess.PIPE, text=True)
            if 'deterministic=yes' not in r.stdout or r.returncode != 1:
                print('selftest toy %s: violation does not replay' % prog); bad += 1
    for fam, prog, P, E in FAIRNESS:
        d = nsmc(['--family', fam, '--program', prog, '--P', str(P), '--E', str(E), '--sample', '--selftest-determinism'])
        ok = not d['violations'] and d['complete'] and d.get('determinism_ok', False) and d.get('determinism_checked', 0) > 0
        print('selftest fairness/determinism %-8s %-16s P=%d E=%d -> %s (%d executions, %d states, %d schedules re-executed)' % (fam, prog, P, E, 'ok' if ok else 'FAILED', d['execs'], d['states'], d.get('determinism_checked', 0)))
        bad += not ok
        if ok and 'sample' in d:
            exe = mcdriver.build('c-futex')
            r = subprocess.run([exe, '--family', fam, '--program', prog, '--P', str(P), '--E', str(E), '--replay', d['sample']['schedule']], stdout=subprocess.PIPE, text=True)
            if 'deterministic=yes' not in r.stdout:
                print('selftest: sample schedule of %s does not replay identically' % prog); bad += 1
    # env-conformance: the futex model against the real kernel
    tmp = tempfile.mkdtemp(prefix='nsync-verif.')
    try:
        exe = os.path.join(tmp, 'futex_conf')
        r = subprocess.run(['gcc', '-O1', '-o', exe, os.path.join(V, 'seq/futex_conf.c'), '-lpthread'], stderr=subprocess.PIPE, text=True)
        if r.returncode:
            raise mcdriver.FrameworkError('cannot build futex_conf: ' + r.stderr)
        real = subprocess.run([exe], stdout=subprocess.PIPE, text=True, timeout=60).stdout.replace('\n', ';')
    finally:
        import shutil; shutil.rmtree(tmp, ignore_errors=True)
    for cfg in ('c-futex', 'cpp-futex'):
        d = nsmc(['--family', 'toy', '--program', 'futexconf', '--P', '0', '--E', '0'], cfg)
        model = list(d['outcomes'])[0] if d['outcomes'] else ''
        ok = (model == real) and not d['violations']
        print('selftest env-conformance (%s): %d futex interactions, model %s the real kernel' % (cfg, real.count(';'), 'agrees with' if ok else 'DISAGREES with'))
        if not ok:
            print('  real : ' + real); print('  model: ' + model)
        bad += not ok
    print('selftest: %s' % ('all passed' if not bad else '%d FAILED' % bad))
    return 0 if not bad else 2
