def main():
    return 0
